"""C19 ZooKeeper server set reports exactly the membership changes that occurred."""
import ast

from ..model import AnalysisError, dotted, unparse
from ..util import FACTS, FACTS_I, U, enum_paths, walk_no_nested
from ..paths import call_attr, call_name

Z = 'scales/loadbalancer/zookeeper.py'
MUTATORS = {'pop', 'popitem', 'clear', 'update', 'add', 'remove', 'discard', 'append', 'extend', 'insert', 'setdefault', '__delitem__', '__setitem__'}


def mutates_attr(prog, f, attr, depth=0, seen=None):
  """Does function f (transitively through self.m() calls) mutate self.<attr>?"""
  seen = seen or set()
  if id(f) in seen or depth > 4:
    return False
  seen = seen | {id(f)}
  for n in ast.walk(f.node):
    if isinstance(n, ast.Call) and isinstance(n.func, ast.Attribute):
      if U(n.func.value) == 'self.' + attr and n.func.attr in MUTATORS:
        return True
      if isinstance(n.func.value, ast.Name) and n.func.value.id == 'self' and f.cls is not None:
        m = f.cls.methods.get(n.func.attr)
        if m is not None and mutates_attr(prog, m, attr, depth + 1, seen):
          return True
    if isinstance(n, (ast.Assign, ast.AugAssign, ast.Delete)):
      tg = n.targets if isinstance(n, (ast.Assign, ast.Delete)) else [n.target]
      for t in tg:
        for x in ([t] + (list(t.elts) if isinstance(t, (ast.Tuple, ast.List)) else [])):
          if isinstance(x, ast.Subscript) and U(x.value) == 'self.' + attr:
            return True
  return False


def check(ctx):
  prog = ctx.prog
  ctx.rule('C19.R1', 'children notification: joined = new - baseline, left = baseline - new, baseline replaced by the new set, one queue item (joined, left) matching the worker unpack order')
  ctx.rule('C19.R2', 'single writer: _members is mutated and the consumer callbacks are invoked only from the notification worker; leaves are processed before joins; double leave guarded; joins only for members read successfully')
  ctx.rule('C19.R3', 'every consumer callback call is individually wrapped in try/except Exception')
  ctx.rule('C19.R4', 'no loop over a live view of a dict/set attribute whose body mutates that attribute')
  ctx.rule('C19.R5', 'parent deletion resets the children baseline and queues the old baseline as leaves; data watch toggles the children watch')
  ctx.rule('C19.R6', 'kazoo watch callbacks (functions handed to ChildrenWatch / DataWatch) never return False: a False result cancels the watch for good')
  ctx.rule('C19.R7', 'baseline consistency: a listed child whose read failed is retried or taken out of the children baseline; a re-created parent is told apart from the old one (creation id), since the children watch of the old one has stopped')
  ctx.decline('agreement with a znode tree over all histories is not decided')
  cls = prog.cls(Z, 'ServerSet')
  osc = prog.func(Z, 'ServerSet._on_set_changed')
  wk = prog.func(Z, 'ServerSet._notification_worker')
  r1(ctx, osc, wk)
  r2(ctx, cls, wk)
  r3(ctx, cls)
  r4(ctx)
  r5(ctx, cls)
  r6(ctx, cls)
  r7(ctx, cls)
  r8(ctx, cls)
  ctx.rule('C19.R9', 'callback gate: the event cleared by the outermost __enter__ of the blocker is set again by the matching __exit__ (set exactly when the nesting count returns to 0); '
                     'the worker waits on it before every batch')
  r9(ctx)
  ctx.rule('C19.R10', 'no memory between ZooKeeper and the consumer: member payloads are read on every use; the provider passes the join/leave callbacks through unchanged')
  r10(ctx)


def r1(ctx, osc, wk):
  prog = ctx.prog
  why = ('the consumer applies joins and leaves in order; a join must be a child that is new relative to the last notification and a '
         'leave one that disappeared; the baseline must then become the new child set')
  ch = osc.params[1]
  # classify local names: NEW (derived from the parameter), OLD (derived from self._nodes read before it is rebound)
  kind = {ch: 'NEW'}
  base_write_line = None
  order = sorted([n for n in walk_no_nested(osc.node) if isinstance(n, ast.Assign)], key=lambda n: n.lineno)
  for st in order:
    t = st.targets[0]
    names_in = set(x.id for x in ast.walk(st.value) if isinstance(x, ast.Name))
    reads_nodes = 'self._nodes' in U(st.value)
    if U(t) == 'self._nodes':
      base_write_line = st.lineno
      src = [k for k in names_in if kind.get(k) == 'NEW']
      ctx.ob('C19.R1', osc, 'baseline replaced by the new child set', bool(src) and not reads_nodes,
             'self._nodes is assigned %s' % U(st.value), why)
      continue
    if isinstance(t, ast.Name):
      if isinstance(st.value, ast.BinOp) and isinstance(st.value.op, ast.Sub):
        l, r = U(st.value.left), U(st.value.right)
        kind[t.id] = 'DIFF:%s-%s' % (kind.get(l, '?'), kind.get(r, '?'))
      elif isinstance(st.value, ast.Call) and call_attr(st.value) == 'difference' and len(st.value.args) == 1:
        l, r = U(st.value.func.value), U(st.value.args[0])
        kind[t.id] = 'DIFF:%s-%s' % (kind.get(l, '?'), kind.get(r, '?'))
      elif reads_nodes and not [k for k in names_in if kind.get(k) == 'NEW']:
        kind[t.id] = 'OLD'
        ctx.ob('C19.R1', osc, 'old baseline captured before it is replaced', base_write_line is None,
               'the previous baseline is read after self._nodes was already replaced', why)
      elif [k for k in names_in if kind.get(k) == 'NEW'] and not reads_nodes:
        kind[t.id] = 'NEW'
  ctx.ob('C19.R1', osc, 'baseline is replaced', base_write_line is not None, 'self._nodes is never assigned in _on_set_changed', why)
  # filter applied to children
  filt = [c for c in walk_no_nested(osc.node) if isinstance(c, ast.Call) and call_attr(c) == '_member_filter']
  ctx.ob('C19.R1', osc, 'children filtered by the member filter', bool(filt) or '_member_filter' in U(osc.node), 'member filter not applied', 'non-member znodes must not be announced', nontrivial=False)
  puts = [c for c in walk_no_nested(osc.node) if isinstance(c, ast.Call) and call_attr(c) == 'put' and '_notification_queue' in U(c.func.value)]
  ok = len(puts) == 1 and puts[0].args and isinstance(puts[0].args[0], ast.Tuple) and len(puts[0].args[0].elts) == 2
  got = None
  def kind_of(x):
    if isinstance(x, ast.BinOp) and isinstance(x.op, ast.Sub):
      return 'DIFF:%s-%s' % (kind_of(x.left), kind_of(x.right))
    if isinstance(x, ast.Call) and call_attr(x) == 'difference' and len(x.args) == 1:
      return 'DIFF:%s-%s' % (kind_of(x.func.value), kind_of(x.args[0]))
    return kind.get(U(x), '?')
  if ok:
    a, b = puts[0].args[0].elts
    got = (kind_of(a), kind_of(b))
    ok = got == ('DIFF:NEW-OLD', 'DIFF:OLD-NEW')
  ctx.ob('C19.R1', osc, 'queues exactly one (new - old, old - new) item', ok, 'queued item is %s' % (got,), why)
  # worker unpack order: position 0 -> joins, position 1 -> leaves
  un = [st for st in ast.walk(wk.node) if isinstance(st, ast.Assign) and isinstance(st.targets[0], ast.Tuple) and U(st.value) in ('work',)]
  ok = len(un) == 1 and len(un[0].targets[0].elts) == 2
  idx_ = {}
  if not un:
    # the item read field by field: joins = work[0]; leaves = work[1]
    for st in ast.walk(wk.node):
      if isinstance(st, ast.Assign) and len(st.targets) == 1 and isinstance(st.targets[0], ast.Name) and isinstance(st.value, ast.Subscript) and U(st.value.value) == 'work' \
         and U(st.value.slice) in ('0', '1'):
        idx_.setdefault(U(st.value.slice), []).append(st.targets[0].id)
    ok = sorted(idx_) == ['0', '1'] and all(len(v) == 1 for v in idx_.values())
  if ok:
    j, l = [U(e) for e in un[0].targets[0].elts] if un else (idx_['0'][0], idx_['1'][0])
    txt = U(wk.node)
    joins_from = [c for c in ast.walk(wk.node) if isinstance(c, ast.Call) and call_attr(c) == '_zk_nodes_to_members']
    ok = len(joins_from) == 1 and U(joins_from[0].args[0]) == j
    leave_loops = [n for n in ast.walk(wk.node) if isinstance(n, ast.For) and U(n.iter) in (l, 'list(%s)' % l, 'sorted(%s)' % l)]
    ok = ok and len(leave_loops) == 1 and any(isinstance(c, ast.Call) and call_attr(c) == '_on_leave' for c in ast.walk(leave_loops[0]))
  ctx.ob('C19.R1', wk, 'worker treats item[0] as joins and item[1] as leaves', ok, 'worker unpack/use changed', why)
  src = [st for st in ast.walk(wk.node) if isinstance(st, ast.Assign) and U(st.targets[0]) == 'work']
  ctx.ob('C19.R1', wk, 'worker takes items from the notification queue', len(src) == 1 and U(src[0].value).replace(' ', '') == 'self._notification_queue.get()',
         'work source changed', why, nontrivial=False)


def r2(ctx, cls, wk):
  prog = ctx.prog
  why = ('_zk_nodes_to_members may yield; only a single worker applying batches in order keeps joins/leaves consistent '
         '(the code states this belief itself); a second writer or caller interleaves with it')
  writers = []
  callers = {'_on_join': [], '_on_leave': []}
  for name, f in cls.methods.items():
    fs = [f] + list(_all_nested(f))
    for g in fs:
      if name != '__init__' and mutates_attr(prog, g, '_members', depth=4):   # direct only
        writers.append(f.name)
      for c in ast.walk(g.node):
        if isinstance(c, ast.Call) and isinstance(c.func, ast.Attribute) and U(c.func.value) == 'self' and c.func.attr in callers:
          callers[c.func.attr].append(f.name)
  for st in ast.walk(cls.node):
    pass
  ctx.ob('C19.R2', cls, '_members written only by the notification worker', set(writers) <= {'_notification_worker'} and bool(writers),
         '_members is mutated in %s' % sorted(set(writers)), why)
  # plain rebinding of self._members outside __init__
  reb = [f.name for f in cls.methods.values() for st in ast.walk(f.node)
         if isinstance(st, ast.Assign) and any(U(t) == 'self._members' for t in st.targets) and f.name != '__init__']
  ctx.ob('C19.R2', cls, '_members is not rebound outside __init__', not reb, '_members rebound in %s' % reb, why)
  for cb, where in callers.items():
    ctx.ob('C19.R2', cls, '%s invoked only by the notification worker' % cb, bool(where) and set(where) <= {'_notification_worker'},
           '%s is called from %s' % (cb, sorted(set(where))), why)
  # worker order: leaves loop before joins loop; pop with default; joins only for members read
  loops = [n for n in ast.walk(wk.node) if isinstance(n, ast.For)]
  ll = [n for n in loops if any(isinstance(c, ast.Call) and call_attr(c) == '_on_leave' for c in ast.walk(n))]
  jl = [n for n in loops if any(isinstance(c, ast.Call) and call_attr(c) == '_on_join' for c in ast.walk(n))]
  # every member of a batch is offered to its callback: the delivery loops are left only by running out of elements (or by an exception)
  for lp_, what_ in [(x, 'leave') for x in ll] + [(x, 'join') for x in jl]:
    esc = [n_ for n_ in walk_no_nested(lp_) if isinstance(n_, (ast.Break, ast.Return)) and not any(isinstance(inner, (ast.For, ast.While)) and inner is not lp_ and any(n_ is y for y in ast.walk(inner))
                                                                                                      for inner in ast.walk(lp_))]
    ctx.ob('C19.R2', wk, 'the %s loop visits every element of the batch' % what_, not esc,
           'the loop that delivers %ss is left early by %s at line %s: the members after that one in the batch are never reported' % (
             what_, type(esc[0]).__name__.lower() if esc else '', getattr(esc[0], 'lineno', '?') if esc else ''), why)
  ok = len(ll) == 1 and len(jl) == 1
  if ok:
    # order along every path of one worker iteration (positions of inlined helper code are not comparable by line)
    wl = [n for n in wk.node.body if isinstance(n, ast.While)]
    body = wl[0].body if wl else wk.node.body
    for evp, exp in enum_paths(ctx, wk, body=body):
      li = [i for i, e in enumerate(evp) if e.kind == 'call' and call_attr(e.node) == '_on_leave']
      ji = [i for i, e in enumerate(evp) if e.kind == 'call' and call_attr(e.node) == '_on_join']
      if li and ji and max(li) > min(ji):
        ok = False
  ctx.ob('C19.R2', wk, 'leaves are delivered before joins of the same batch', ok, 'loop order changed',
         'a member that is replaced under the same name must be seen leaving before its successor joins')
  if len(ll) == 1:
    pops = [c for c in ast.walk(ll[0]) if isinstance(c, ast.Call) and call_attr(c) == 'pop' and U(c.func.value) == 'self._members']
    ok = len(pops) == 1 and len(pops[0].args) == 2 and U(pops[0].args[0]) == U(ll[0].target) and U(pops[0].args[1]) == 'None'
    ctx.ob('C19.R2', wk, 'leave pops the member with a default (unknown/double leave tolerated)', ok, 'pop is %s' % [U(p) for p in pops],
           'no member may be reported as leaving twice; a missing member must not raise and abort the batch')
    # _on_leave only under "removed member found"
    if ok:
      var = None
      for st in ast.walk(ll[0]):
        if isinstance(st, ast.Assign) and st.value is pops[0]:
          var = U(st.targets[0])
      okc = var is not None
      n_call = 0
      for ev, ex in enum_paths(ctx, wk, body=ll[0].body):
        for i, e in enumerate(ev):
          if e.kind == 'call' and call_attr(e.node) == '_on_leave':
            n_call += 1
            okc = okc and [U(a) for a in e.node.args] == [var] and (var, True) in FACTS(ev[:i])
      ctx.ob('C19.R2', wk, 'leave announced only for a member that was announced', okc and n_call >= 1, 'leave is not guarded by the popped member', why)
  if len(jl) == 1:
    it = U(jl[0].iter)
    src = [st for st in ast.walk(wk.node) if isinstance(st, ast.Assign) and U(st.targets[0]) == it]
    ok = len(src) == 1 and isinstance(src[0].value, ast.Call) and call_attr(src[0].value) == '_zk_nodes_to_members'
    ctx.ob('C19.R2', wk, 'joins announced for the members read successfully', ok, 'join loop iterates %s' % it,
           'a member that vanished between listing and reading must not be announced')
    upd = [c for c in ast.walk(wk.node) if isinstance(c, ast.Call) and call_attr(c) == 'update' and U(c.func.value) == 'self._members']
    ok = len(upd) == 1 and it in U(upd[0]) and 'name' in U(upd[0])
    if not upd:
      # or item by item:  for m in <members>: self._members[m.name] = m
      for lp in [n for n in ast.walk(wk.node) if isinstance(n, ast.For) and U(n.iter) == it]:
        v_ = U(lp.target)
        st_ = [s_ for s_ in lp.body if isinstance(s_, ast.Assign) and isinstance(s_.targets[0], ast.Subscript) and U(s_.targets[0].value) == 'self._members']
        if len(st_) == 1 and U(st_[0].targets[0].slice) == '%s.name' % v_ and U(st_[0].value) == v_:
          ok = True
    ctx.ob('C19.R2', wk, 'announced members are recorded by name', ok, '_members.update is %s' % [U(u) for u in upd],
           'a later leave finds the member by its node name')
  z = prog.func(Z, 'ServerSet._zk_nodes_to_members')
  s = prog.func(Z, 'ServerSet._safe_zk_node_to_member')
  hs = [h for n in ast.walk(s.node) if isinstance(n, ast.Try) for h in n.handlers]
  ok = any(h.type is not None and U(h.type).endswith('NoNodeError') and any(isinstance(x, ast.Return) and U(x.value) == 'None' for x in h.body) for h in hs)
  def _drops_none(fn):
    for n_ in ast.walk(fn):
      if isinstance(n_, ast.comprehension) and isinstance(n_.target, ast.Name):
        for c_ in n_.ifs:
          if U(c_).replace(' ', '') in (n_.target.id, '%sisnotNone' % n_.target.id):
            return True
      if isinstance(n_, ast.Call) and isinstance(n_.func, ast.Name) and n_.func.id == 'filter' and len(n_.args) == 2 and isinstance(n_.args[0], ast.Constant) and n_.args[0].value is None:
        return True
      if isinstance(n_, ast.For) and isinstance(n_.target, ast.Name):
        for st_ in n_.body:
          if isinstance(st_, ast.If) and U(st_.test).replace(' ', '') in (n_.target.id, '%sisnotNone' % n_.target.id, 'not' + n_.target.id, '%sisNone' % n_.target.id):
            return True
    # a name bound to the result of the safe read and tested before it is used
    got = set(t.id for n_ in ast.walk(fn) if isinstance(n_, ast.Assign) and isinstance(n_.value, ast.Call) and '_safe_zk_node_to_member' in U(n_.value.func)
              for t in n_.targets if isinstance(t, ast.Name))
    for n_ in ast.walk(fn):
      if isinstance(n_, (ast.If, ast.IfExp)) and U(n_.test).replace(' ', '') in [f_ % g for g in got for f_ in ('%s', '%sisnotNone', 'not%s', '%sisNone')]:
        return True
    return 'if m' in U(fn)
  ctx.ob('C19.R2', s, 'member vanished between listing and reading is skipped', ok and _drops_none(z.node), 'NoNodeError handling changed',
         'members vanishing mid-read must be skipped, not abort the batch')
  sp = [c for c in ast.walk(cls.methods['__init__'].node) if isinstance(c, ast.Call) and call_name(c) == 'gevent.spawn' and U(c.args[0]) == 'self._notification_worker']
  ctx.ob('C19.R2', cls, 'exactly one notification worker is started', len(sp) == 1 and not [
    c for f in cls.methods.values() if f.name != '__init__' for c in ast.walk(f.node)
    if isinstance(c, ast.Call) and c.args and U(c.args[0]) == 'self._notification_worker'], 'worker spawn changed', why, nontrivial=False)


def _all_nested(f):
  for g in f.nested.values():
    yield g
    for h in _all_nested(g):
      yield h


def _enclosing_try(root, node):
  """innermost Try whose body (not handlers) contains node, with the path of statements"""
  best = None

  def visit(n, cur):
    nonlocal best
    if n is node:
      best = cur
      return
    if isinstance(n, ast.Try):
      for s in n.body:
        visit(s, n)
      for h in n.handlers:
        for s in h.body:
          visit(s, cur)
      for s in n.orelse + n.finalbody:
        visit(s, cur)
      return
    for ch in ast.iter_child_nodes(n):
      visit(ch, cur)
  visit(root, None)
  return best


def r3(ctx, cls):
  why = 'an error in one consumer callback must not stop later notifications: each callback call needs its own try/except Exception'
  n = 0
  for f in cls.methods.values():
    for c in ast.walk(f.node):
      if isinstance(c, ast.Call) and isinstance(c.func, ast.Attribute) and U(c.func.value) == 'self' and c.func.attr in ('_on_join', '_on_leave'):
        n += 1
        t = _enclosing_try(f.node, c)
        ok = False
        if t is not None:
          catches = any(h.type is None or U(h.type) in ('Exception', 'BaseException') for h in t.handlers)
          # the try must be inside the per-member loop (not around it): no For/While between try and call
          loop_inside = any(isinstance(x, (ast.For, ast.While)) and any(y is c for y in ast.walk(x)) for s in t.body for x in ast.walk(s))
          swallow = all(not any(isinstance(x, ast.Raise) for s in h.body for x in ast.walk(s)) for h in t.handlers)
          ok = catches and not loop_inside and swallow
        ctx.ob('C19.R3', f, '%s call isolated by its own try/except' % c.func.attr, ok,
               'callback call at line %d is not wrapped per call in try/except Exception' % c.lineno, why)
  ctx.floor('C19.R3', 'consumer callback call sites', n, 2)


def r4(ctx):
  prog = ctx.prog
  why = 'mutating a dict/set while iterating a live view raises RuntimeError after the first removal and leaves the rest unprocessed'
  n = 0
  for f in prog.all_funcs:
    if f.module.rel not in (Z, 'scales/loadbalancer/serverset.py', 'scales/loadbalancer/base.py'):
      continue
    for lp in [x for x in walk_no_nested(f.node) if isinstance(x, ast.For)]:
      it = lp.iter
      live = None
      if isinstance(it, ast.Call) and isinstance(it.func, ast.Attribute) and it.func.attr in ('keys', 'values', 'items') and U(it.func.value).startswith('self.'):
        live = U(it.func.value)[5:]
      elif isinstance(it, ast.Attribute) and U(it).startswith('self.') and it.attr.startswith('_'):
        live = it.attr
      if live is None:
        continue
      n += 1
      fake = type('F', (), {})()
      mut = False
      for st in lp.body:
        for c in ast.walk(st):
          if isinstance(c, ast.Call) and isinstance(c.func, ast.Attribute):
            if U(c.func.value) == 'self.' + live and c.func.attr in MUTATORS:
              mut = True
            if isinstance(c.func.value, ast.Name) and c.func.value.id == 'self' and f.cls is not None:
              m = f.cls.methods.get(c.func.attr)
              if m is not None and mutates_attr(prog, m, live):
                mut = True
          if isinstance(c, (ast.Delete, ast.Assign)):
            for t in (c.targets):
              if isinstance(t, ast.Subscript) and U(t.value) == 'self.' + live:
                mut = True
      ctx.ob('C19.R4', f, 'loop over live view of self.%s does not mutate it' % live, not mut,
             'loop at line %d iterates self.%s and mutates it in its body' % (lp.lineno, live), why)
  ctx.info('C19.R4 examined %d loops over live views of instance attributes' % n)


def r5(ctx, cls):
  prog = ctx.prog
  why = ("kazoo's ChildrenWatch stops silently when the parent is deleted; unless the baseline is reset and the old members are reported "
         'as leaving, a re-created path reports nothing (or reports joins twice)')
  dc = prog.func(Z, 'ServerSet._data_changed')
  stat = dc.params[2]
  seen = {}
  for ev, ex in enum_paths(ctx, dc):
    fs = FACTS(ev)
    calls = [call_attr(e.node) or (e.node.func.id if isinstance(e.node.func, ast.Name) else None) for e in ev if e.kind == 'call']
    # the watch may be started in place: ChildrenWatch(self._zk, self._zk_path, self._on_set_changed) is what _begin_watch does
    bw = prog.try_func(Z, 'ServerSet._begin_watch')
    if bw is None:
      calls = ['_begin_watch' if (c == 'ChildrenWatch' and any(e.kind == 'call' and isinstance(e.node.func, ast.Name) and e.node.func.id == 'ChildrenWatch'
                                                               and [U(a) for a in e.node.args][:2] == ['self._zk', 'self._zk_path'] for e in ev)) else c for c in calls]
    writes = [(U(e.node.targets[0]), U(e.node.value)) for e in ev if e.kind == 'stmt' and isinstance(e.node, ast.Assign)]
    # a boolean written as the test itself (`self._watching = stat is not None`) has the value the path facts give that test
    writes = [(t_, 'True' if (v_.replace(' ', ''), True) in fs else 'False' if (v_.replace(' ', ''), False) in fs else v_) if v_ not in ('True', 'False') else (t_, v_) for t_, v_ in writes]
    if ('%sisNone' % stat, True) in fs:
      seen['deleted'] = '_send_all_removed' in calls and ('self._watching', 'False') in writes and '_begin_watch' not in calls
    elif ('notself._watching', True) in fs or ('self._watching', False) in fs:
      seen['created'] = '_begin_watch' in calls and ('self._watching', 'True') in writes and '_send_all_removed' not in calls
    else:
      seen['noop'] = '_begin_watch' not in calls and '_send_all_removed' not in calls
  ctx.ob('C19.R5', dc, 'parent deleted: stop watching and report everything removed', seen.get('deleted', False), 'deleted branch: %s' % seen.get('deleted'), why)
  ctx.ob('C19.R5', dc, 'parent (re)created: start exactly one children watch', seen.get('created', False), 'created branch: %s' % seen.get('created'), why)
  ctx.ob('C19.R5', dc, 'data change while watching starts no second watch', seen.get('noop', False), 'already-watching branch: %s' % seen.get('noop'),
         'two children watches deliver every change twice')
  sr = prog.func(Z, 'ServerSet._send_all_removed')
  # must: reset self._nodes to an empty set, queue (empty, old baseline); must not touch _members / callbacks (R2)
  resets = []
  old = None
  for st in walk_no_nested(sr.node):
    if isinstance(st, ast.Assign):
      ts = st.targets[0]
      if isinstance(ts, ast.Tuple) and isinstance(st.value, ast.Tuple) and len(ts.elts) == len(st.value.elts):
        pairs = list(zip(ts.elts, st.value.elts))
      else:
        pairs = [(ts, st.value)]
      for t, v in pairs:
        if U(t) == 'self._nodes':
          resets.append(U(v).replace(' ', ''))
        elif isinstance(t, ast.Name) and 'self._nodes' in U(v):
          old = t.id
  ctx.ob('C19.R5', sr, 'baseline reset on parent deletion', any(r in ('set()', 'frozenset()', 'set([])') for r in resets),
         'self._nodes is assigned %s' % resets, why)
  puts = [c for c in walk_no_nested(sr.node) if isinstance(c, ast.Call) and call_attr(c) == 'put' and '_notification_queue' in U(c.func.value)]
  ok = len(puts) == 1 and isinstance(puts[0].args[0], ast.Tuple) and len(puts[0].args[0].elts) == 2
  if ok:
    a, b = puts[0].args[0].elts
    ok = U(a).replace(' ', '') in ('set()', '()', '[]', 'frozenset()') and old is not None and U(b) in (old, 'set(%s)' % old)
  ctx.ob('C19.R5', sr, 'old children baseline queued as leaves through the worker', ok,
         'queued item is %s' % ([U(p.args[0]) for p in puts]),
         why + '; the leaves must be the listed-children baseline (members still being read are announced later and would never leave)')


def r8(ctx, cls):
  """Every queued batch is applied on its own, and the children baseline belongs to the watch callbacks."""
  prog = ctx.prog
  wk = prog.func(Z, 'ServerSet._notification_worker')
  why = ('batches are diffs of node NAMES against the baseline at the time they were queued; a member deleted and re-created under the same name is a leave in one '
         'batch and a join in the next -- folding queued batches into a "net change" cancels the leave, the consumer sees the member join twice')
  wl = [n for n in wk.node.body if isinstance(n, ast.While)]
  body = wl[0].body if wl else wk.node.body
  ok = True
  n_it = 0
  for ev, ex in enum_paths(ctx, wk, body=body):
    gets = [e for e in ev if e.kind == 'call' and call_attr(e.node) in ('get', 'get_nowait') and '_notification_queue' in U(e.node.func.value)]
    n_it += 1
    if len(gets) != 1 or call_attr(gets[0].node) != 'get':
      ok = False
  drains = [c for c in ast.walk(wk.node) if isinstance(c, ast.Call) and call_attr(c) in ('get_nowait', 'empty', 'qsize', 'peek') and '_notification_queue' in U(c.func.value)]
  ctx.ob('C19.R2', wk, 'the worker takes exactly one queued batch per iteration and applies it as queued', ok and not drains and n_it >= 1,
         'the worker looks further into the queue (%s) / takes other than one batch per iteration' % [U(d) for d in drains], why)
  # who may write the children baseline
  writers = set()
  for m_ in cls.methods.values():
    for n_ in ast.walk(m_.node):
      tg = n_.targets if isinstance(n_, ast.Assign) else [n_.target] if isinstance(n_, ast.AugAssign) else []
      for t_ in tg:
        for x in (t_.elts if isinstance(t_, ast.Tuple) else [t_]):
          if U(x) == 'self._nodes':
            writers.add(m_.name)
      if isinstance(n_, ast.Call) and isinstance(n_.func, ast.Attribute) and U(n_.func.value) == 'self._nodes' and n_.func.attr in ('add', 'discard', 'remove', 'clear', 'update', 'pop', 'difference_update', 'intersection_update'):
        writers.add(m_.name)
  ctx.ob('C19.R1', cls, 'the children baseline (_nodes) is written only by the children-watch callback and the parent-deleted path', writers <= {'__init__', '_on_set_changed', '_send_all_removed'},
         '_nodes is changed in %s: a name taken out of the baseline elsewhere (e.g. by a snapshot read that finds the node gone) is no longer reported as a leave when the watch delivers the deletion' % sorted(writers),
         'left = baseline - new: the baseline must hold exactly what the last notification listed')


def r6(ctx, cls):
  prog = ctx.prog
  why = ("kazoo's ChildrenWatch/DataWatch stop watching when the callback returns False; every later membership change would go unreported")
  n = 0
  for f in cls.methods.values():
    for c in walk_no_nested(f.node):
      if not (isinstance(c, ast.Call) and isinstance(c.func, ast.Name) and c.func.id in ('ChildrenWatch', 'DataWatch')):
        continue
      cb = None
      for k in c.keywords:
        if k.arg == 'func':
          cb = k.value
      if cb is None and len(c.args) >= 3:
        cb = c.args[2]
      tgt = None
      if isinstance(cb, ast.Attribute) and U(cb.value) == 'self':
        tgt = prog.lookup_method(cls, cb.attr)
      if tgt is None:
        ctx.ob('C19.R6', f, '%s callback is a method of the server set' % c.func.id, False, 'callback %s cannot be resolved' % (U(cb) if cb is not None else None), why)
        continue
      n += 1
      bad = [r for r in walk_no_nested(tgt.node) if isinstance(r, ast.Return) and r.value is not None
             and not (isinstance(r.value, ast.Constant) and (r.value.value is None or r.value.value is True))]
      ctx.ob('C19.R6', tgt, '%s callback never returns False' % c.func.id, not bad,
             'callback may return %s' % [U(b.value) for b in bad], why)
  ctx.floor('C19.R6', 'watch registrations', n, 2)


def r7(ctx, cls):
  prog = ctx.prog
  # (a) a child that vanished between listing and reading: _safe_zk_node_to_member returns None for it.  The name is
  # already part of the children baseline (_nodes); unless it is retried or taken out again, a member re-created under
  # that name before the next listing is never announced
  conv = prog.func(Z, 'ServerSet._zk_nodes_to_members')
  wk = prog.func(Z, 'ServerSet._notification_worker')
  handled = False
  for f in (conv, wk):
    for n in ast.walk(f.node):
      # a statement-level reaction to a failed read: a branch on a falsy member that writes a set/dict attribute
      if isinstance(n, ast.If):
        t = U(n.test).replace(' ', '')
        falsy_branch = n.orelse if not t.startswith('not') and 'isNone' not in t else n.body
        for st in falsy_branch:
          for c in ast.walk(st):
            if isinstance(c, ast.Call) and isinstance(c.func, ast.Attribute) and c.func.attr in ('add', 'discard', 'remove') and U(c.func.value).startswith('self._'):
              handled = True
  ctx.ob('C19.R7', conv, 'a listed child whose read failed is retried or removed from the children baseline', handled,
         'members whose read raised NoNodeError are silently filtered out while their names stay in _nodes: create X, list, X vanishes before the read, '
         'X is re-created under the same name before the next listing -> the diff is empty and X is never announced',
         'the consumer must hold exactly the members currently present, including members vanishing between listing and reading')
  # (b) parent deleted and re-created between two callbacks
  dc = prog.func(Z, 'ServerSet._data_changed')
  stat = dc.params[2] if len(dc.params) > 2 else 'stat'
  ids = [n for n in ast.walk(dc.node) if isinstance(n, ast.Attribute) and U(n.value) == stat and n.attr in ('czxid', 'creation_transaction_id', 'ctime', 'created')]
  ctx.ob('C19.R7', dc, 'a re-created parent is told apart from the one being watched', bool(ids),
         '_data_changed only looks at "stat is None" and the _watching flag: delete member, delete parent, re-create parent before the data watch re-reads -> '
         'the children watch stopped on NoNodeError, the data watch sees a valid stat with _watching still True and nothing restarts the children watch: '
         'no later join or leave is ever reported',
         'for every history including deletion and re-creation of the path itself')


def r9(ctx):
  """The notification worker parks in ensure_safe() while get_members() runs; a gate that is not reopened stops all join/leave delivery."""
  from ..util import counter_run, counter_entails, inline_expr_methods
  prog = ctx.prog
  why = ('get_members() closes the gate around its read of the member table and the notification worker waits for it before every batch: if the outermost exit does not '
         'set the event again, no join or leave is ever delivered after the first get_members()')
  ent = prog.try_func(Z, 'ServerSet._CallbackBlocker.__enter__')
  ext = prog.try_func(Z, 'ServerSet._CallbackBlocker.__exit__')
  if ent is None or ext is None:
    ctx.ob('C19.R9', prog.func(Z, 'ServerSet._notification_worker'), 'callback blocker present', False, '_CallbackBlocker.__enter__/__exit__ not found', why)
    return
  attr = 'self._count'
  for f, call, n0, delta, what in ((ent, 'clear', 0, 1, 'closed by the outermost enter'), (ext, 'set', 1, -1, 'reopened by the outermost exit')):
    saw = False
    for ev, ex in enum_paths(ctx, f):
      if ex[0] == 'raise':
        continue
      import copy as _cp
      ev2 = []
      for e in ev:
        if e.kind == 'cond':
          e = _cp.copy(e)
          e.node = inline_expr_methods(prog, f, e.node)
        ev2.append(e)
      writes, facts = counter_run(ev2, attr)
      hit = [i for i, e in enumerate(ev) if e.kind == 'call' and U(e.node.func) == 'self.event.' + call]
      final = writes[-1][1] if writes else (1, 0)
      ctx.ob('C19.R9', f, '%s moves the nesting count by %+d' % (f.name, delta), final == (1, delta), 'count becomes %s*N%+d' % final, why)
      if hit:
        saw = True
        ok = counter_entails([x for x in facts if x[0] < hit[0]], '==', n0)
        ctx.ob('C19.R9', f, 'the gate is %s: event.%s() only when the count on entry is %d' % (what, call, n0), ok,
               'event.%s() is reached under %s about the count on entry' % (call, [(r_, k_) for _, r_, k_ in facts]), why)
      else:
        ok = counter_entails(facts, '!=', n0)
        ctx.ob('C19.R9', f, 'the gate is %s: every path for count %d on entry calls event.%s()' % (what, n0, call), ok,
               'a path without event.%s() is possible when the count on entry is %d (conditions: %s)' % (call, n0, [(r_, k_) for _, r_, k_ in facts]), why)
    ctx.ob('C19.R9', f, '%s has a path that calls event.%s()' % (f.name, call), saw, 'no path calls event.%s()' % call, why)
  wk = prog.func(Z, 'ServerSet._notification_worker')
  ctx.ob('C19.R9', wk, 'the worker waits for the gate before applying a batch', any(isinstance(c, ast.Call) and U(c.func).endswith('.ensure_safe') for c in ast.walk(wk.node)),
         'ensure_safe() is not called by the worker', 'a batch applied while get_members() reads the table interleaves with it', nontrivial=False)


def r10(ctx):
  """Nothing between ZooKeeper and the consumer remembers or filters: every member payload is read from ZooKeeper when it is needed, and the
  provider hands the consumer's callbacks to the server set unchanged."""
  prog = ctx.prog
  gi = prog.try_func(Z, 'ServerSet._get_info')
  why = ('the consumer ends up holding exactly the members present: a node name can come back with another payload (parent re-created: the sequence counter restarts; '
         'a restarted announcer), so a payload remembered per name announces a member that is not there')
  if gi is not None:
    for ev, ex in enum_paths(ctx, gi):
      if ex[0] != 'ret':
        continue
      reads = [e for e in ev if e.kind == 'call' and call_attr(e.node) == 'get' and U(e.node.func.value) == 'self._zk']
      ctx.ob('C19.R10', gi, 'a member payload is read from ZooKeeper every time it is needed', len(reads) == 1,
             'a path of _get_info returns without reading the node (%d reads)' % len(reads), why)
    stores = [st for st in ast.walk(gi.node) if isinstance(st, (ast.Assign, ast.AugAssign)) and any(
      isinstance(t, (ast.Attribute, ast.Subscript)) and U(t).startswith('self.') for t in (st.targets if isinstance(st, ast.Assign) else [st.target]))]
    ctx.ob('C19.R10', gi, '_get_info keeps nothing on the server set', not stores, '_get_info stores %s' % [U(s_) for s_ in stores], why)
  S = 'scales/loadbalancer/serverset.py'
  ini = prog.func(S, 'ZooKeeperServerSetProvider.Initialize')
  whyp = ('join/leave are delivered per znode: two live znodes may carry the same payload (a restarted process registers before its old session expires); a filter keyed on the '
          'Member value swallows the second join and forwards the leave of the first, so the consumer loses a member that is present')
  calls = [c for c in ast.walk(ini.node) if isinstance(c, ast.Call) and U(c.func).split('.')[-1] == 'ServerSet']
  ok = False
  if len(calls) == 1 and len(ini.params) >= 3:
    a = calls[0].args
    kw = dict((k.arg, k.value) for k in calls[0].keywords)
    j = a[2] if len(a) > 2 else kw.get('on_join')
    l = a[3] if len(a) > 3 else kw.get('on_leave')
    ok = j is not None and l is not None and U(j) == ini.params[1] and U(l) == ini.params[2]
  ctx.ob('C19.R10', ini, "the provider hands the consumer's join/leave callbacks to the server set unchanged", ok,
         'ServerSet(...) is built with %s' % ([U(x) for x in calls[0].args] if calls else None), whyp)
  gs = prog.func(S, 'ZooKeeperServerSetProvider.GetServers')
  rets = [r for r in walk_no_nested(gs.node) if isinstance(r, ast.Return) and r.value is not None]
  okg = bool(rets) and all(U(r.value).replace(' ', '') == 'self._server_set.get_members()' for r in rets)
  ctx.ob('C19.R10', gs, 'GetServers returns the members the server set reports', okg, 'GetServers returns %s' % [U(r.value) for r in rets], whyp, nontrivial=False)
