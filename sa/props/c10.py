"""C10 Timer queue runs each action once, never early, in deadline order."""
import ast

from ..model import AnalysisError, dotted, unparse
from ..util import resolved_text, sym_env, sym_resolve, POS, FACTS, FACTS_I, U, enum_paths, walk_no_nested, is_yield_call
from ..paths import call_attr, call_name

T = 'scales/timer_queue.py'


def is_peek(v):
  """the read of the queue head: self._PeekNext() or self._queue[0][:3]"""
  return (isinstance(v, ast.Call) and call_attr(v) == '_PeekNext') or U(v).replace(' ', '') == 'self._queue[0][:3]'


def strip_num(e):
  while isinstance(e, ast.Call) and isinstance(e.func, ast.Name) and e.func.id in ('int', 'float', 'Long') and len(e.args) == 1:
    e = e.args[0]
  return e


def is_ceil_multiple(expr, d, r):
  """expr == ceil(d / r) * r in one of the accepted spellings."""
  expr = strip_num(expr)
  if not (isinstance(expr, ast.BinOp) and isinstance(expr.op, ast.Mult)):
    return False
  for a, b in ((expr.left, expr.right), (expr.right, expr.left)):
    if U(b) != r:
      continue
    a = strip_num(a)
    # math.ceil(d / r)
    if isinstance(a, ast.Call) and (dotted(a.func) or '').split('.')[-1] == 'ceil' and len(a.args) == 1:
      q = strip_num(a.args[0])
      if isinstance(q, ast.BinOp) and isinstance(q.op, ast.Div) and U(strip_num(q.left)) == d and U(q.right) == r:
        return True
    # -(-d // r)
    if isinstance(a, ast.UnaryOp) and isinstance(a.op, ast.USub):
      q = a.operand
      if isinstance(q, ast.BinOp) and isinstance(q.op, ast.FloorDiv) and U(q.right) == r:
        l = q.left
        if isinstance(l, ast.UnaryOp) and isinstance(l.op, ast.USub) and U(strip_num(l.operand)) == d:
          return True
  return False


def check(ctx):
  prog = ctx.prog
  ctx.rule('C10.R1', 'Schedule rounds the deadline up to a multiple of the resolution: ceil(d / r) * r')
  ctx.rule('C10.R2', 'entry layout [deadline, seq, cancelled, action]: seq strictly increasing before any non-orderable field; cancel closure, peek and pop agree on positions')
  ctx.rule('C10.R3', 'wake: heappush precedes event.set, with no yield between, set when the new entry is the head')
  ctx.rule('C10.R4', 'never early / cancelled never runs: pop-and-run only after to_wait <= 0 or a timed-out wait on the peeked head; action spawned once, only if not cancelled; only the worker pops; only Schedule pushes')
  ctx.rule('C10.R5', 'no lost wake-up: the event is cleared before the head is read; nothing yields between reading the head and waiting on it')
  ctx.decline('interleavings under the real gevent hub and clock behaviour are not decided')
  tq = prog.cls(T, 'TimerQueue')
  sch = prog.func(T, 'TimerQueue.Schedule')
  wk = prog.func(T, 'TimerQueue._TimerWorker')
  r1(ctx, sch)
  layout = r2(ctx, tq, sch, wk)
  r3(ctx, sch)
  r4(ctx, tq, sch, wk)


def r1(ctx, sch):
  d = sch.params[1]
  why = ('an action must run once the clock reaches T rounded UP to the resolution and never before T: floor/round run early, '
         '"(d // r + 1) * r" pushes exact multiples a whole tick late and reorders them')
  act = sch.params[2]
  n_q = 0
  for ev, ex in enum_paths(ctx, sch):
    if ex[0] != 'ret':
      continue
    # the value stored as the entry's deadline, resolved through the assignments on this path
    ent = [(i, e.node) for i, e in enumerate(ev) if e.kind == 'stmt' and isinstance(e.node, ast.Assign) and isinstance(e.node.value, ast.List)
           and any(U(x) == act for x in e.node.value.elts)]
    if not ent:
      continue
    i, st = ent[0]
    env = sym_env(ev, i)
    val = sym_resolve(st.value.elts[0], env)
    fs = FACTS(ev[:i])
    if ('self._resolution', True) in fs:
      n_q += 1
      R = 'self._resolution'
      # float arithmetic: ceil(d / r) * r can land one ulp below d (the division rounds to a whole number);
      # the quantised value has to be compared with the requested deadline and bumped by one quantum if below
      guard = None
      for j in range(i):
        e = ev[j]
        if e.kind != 'cond' or not isinstance(e.node, ast.Compare) or len(e.node.ops) != 1:
          continue
        envj = sym_env(ev, j)
        L, Rr = sym_resolve(e.node.left, envj), sym_resolve(e.node.comparators[0], envj)
        op = type(e.node.ops[0]).__name__
        if is_ceil_multiple(Rr, d, R) and U(L) == d:
          L, Rr = Rr, L
          op = {'Lt': 'Gt', 'Gt': 'Lt', 'LtE': 'GtE', 'GtE': 'LtE'}.get(op, op)
        if not (is_ceil_multiple(L, d, R) and U(Rr) == d):
          continue
        if op == 'Lt':
          guard = 'below' if e.info else 'ok'
        elif op == 'GtE':
          guard = 'ok' if e.info else 'below'
      bumped = isinstance(val, ast.BinOp) and isinstance(val.op, ast.Add) and (
        (is_ceil_multiple(val.left, d, R) and U(val.right) == R) or (is_ceil_multiple(val.right, d, R) and U(val.left) == R))
      ok = (guard == 'ok' and is_ceil_multiple(val, d, R)) or (guard == 'below' and bumped)
      what = 'the entry deadline is %s' % U(val)
      if guard is None and is_ceil_multiple(val, d, R):
        what = ('the quantised deadline %s is never compared with the requested one: in floating point ceil(d / r) * r can be below d '
                '(e.g. d = 0.21000000000000002, r = 0.01 gives 0.21)' % U(val))
      ctx.ob('C10.R1', sch, 'deadline = ceil(deadline / resolution) * resolution, never below the requested deadline', ok, what, why)
    elif ('self._resolution', False) in fs:
      ctx.ob('C10.R1', sch, 'resolution 0: the deadline is used unchanged', U(val) == d, 'the entry deadline is %s' % U(val), 'resolution 0 means no quantisation', nontrivial=False)
    else:
      ctx.ob('C10.R1', sch, 'quantisation guarded by a non-zero resolution', is_ceil_multiple(val, d, 'self._resolution') is False and U(val) == d or False,
             'entry deadline %s on a path that does not test the resolution' % U(val), 'resolution 0 means no quantisation (division by zero otherwise)')
  ctx.floor('C10.R1', 'quantising paths of Schedule', n_q, 1)


def r2(ctx, tq, sch, wk):
  prog = ctx.prog
  why = ('heap entries are compared as lists: deadline first, then a unique increasing sequence number (ties run in scheduling order and the '
         'comparison never reaches the action, which is not orderable); cancel/peek/pop must address the same positions')
  d = sch.params[1]
  act = sch.params[2]
  lists = [st for st in walk_no_nested(sch.node) if isinstance(st, ast.Assign) and isinstance(st.value, ast.List)]
  ent = [st for st in lists if any(U(e) == act for e in st.value.elts)]
  if len(ent) != 1:
    raise AnalysisError('C10.R2: heap entry list literal not found in Schedule')
  ent = ent[0]
  elts = [U(e) for e in ent.value.elts]
  name = U(ent.targets[0])
  pos = {'deadline': elts.index(d) if d in elts else None,
         'seq': elts.index('self._seq') if 'self._seq' in elts else None,
         'cancelled': elts.index('False') if 'False' in elts else None,
         'action': elts.index(act)}
  ok = pos['deadline'] == 0 and pos['seq'] == 1 and pos['cancelled'] is not None and pos['action'] is not None and pos['seq'] < pos['action'] and pos['seq'] < pos['cancelled']
  ctx.ob('C10.R2', sch, 'entry = [deadline, seq, ..., cancelled, action] with seq before unorderable fields', ok, 'entry is %s' % elts, why)
  # seq incremented before use, on the path
  for ev, ex in enum_paths(ctx, sch):
    if ex[0] != 'ret':
      continue
    inc = [i for i, e in enumerate(ev) if e.kind == 'stmt' and isinstance(e.node, ast.AugAssign) and U(e.node.target) == 'self._seq'
           and isinstance(e.node.op, ast.Add) and U(e.node.value) == '1']
    mk = [i for i, e in enumerate(ev) if e.kind == 'stmt' and e.node is ent]
    ctx.ob('C10.R2', sch, 'sequence number incremented once before the entry is built', len(inc) == 1 and mk and inc[0] < mk[0],
           'seq increments %d, order %s/%s' % (len(inc), inc, mk), why + '; equal (deadline, seq) pairs compare the actions and raise TypeError')
    pushes = [i for i, e in enumerate(ev) if e.kind == 'call' and call_name(e.node) in ('heapq.heappush', 'heappush')]
    okp = len(pushes) == 1 and [U(a) for a in ev[pushes[0]].node.args] == ['self._queue', name]
    ctx.ob('C10.R2', sch, 'every Schedule pushes its entry exactly once', okp, 'pushes on a path: %d' % len(pushes), 'an action scheduled must run exactly once')
    rets = [e for e in ev if e.kind == 'ret']
    cn = [k for k in sch.nested]
    okr = bool(rets) and len(cn) == 1 and U(rets[-1].node.value) == cn[0]
    if not okr and rets and not cn and rets[-1].node.value is not None:
      # functools.partial(<module-level function>, entry): a callable bound to this entry
      from ..util import callback_bodies
      v_ = rets[-1].node.value
      okr = isinstance(v_, ast.Call) and len(v_.args) == 2 and U(v_.args[1]) == name and \
        len([1 for n_, _b in callback_bodies(prog, sch, v_) if isinstance(n_, (ast.FunctionDef, ast.AsyncFunctionDef))]) == 1
    ctx.ob('C10.R2', sch, 'Schedule returns the cancel closure', okr, 'returns %s' % (U(rets[-1].node) if rets else None),
           'the caller cancels through the returned closure', nontrivial=False)
  other_seq = [f.qualname for f in tq.methods.values() if f.name not in ('__init__', 'Schedule') for st in ast.walk(f.node)
               if isinstance(st, (ast.Assign, ast.AugAssign)) and 'self._seq' in [U(t) for t in (st.targets if isinstance(st, ast.Assign) else [st.target])]]
  ctx.ob('C10.R2', tq, '_seq written only by Schedule', not other_seq, '_seq also written in %s' % other_seq, why)
  # cancel closure writes the cancelled position of its own entry
  cn = list(sch.nested.values())
  if len(cn) != 1:
    # the cancel callable written as functools.partial(<module-level function>, entry): the function with the entry bound stands for the closure
    from ..util import callback_bodies
    class _Fn(object):
      pass
    rv = [r.value for r in walk_no_nested(sch.node) if isinstance(r, ast.Return) and r.value is not None]
    cands = [n for v in rv[-1:] for n, _b in callback_bodies(prog, sch, v) if isinstance(n, (ast.FunctionDef, ast.AsyncFunctionDef))] if not cn else []
    if len(cands) != 1:
      raise AnalysisError('C10.R2: cancel closure not found')
    c_ = _Fn()
    c_.node, c_.qualname, c_.name, c_.module = cands[0], sch.qualname + '.cancel', cands[0].name, sch.module
    cn = [c_]
  cn = cn[0]
  wr = {}
  for st in ast.walk(cn.node):
    if isinstance(st, ast.Assign) and isinstance(st.targets[0], ast.Subscript) and U(st.targets[0].value) == name:
      wr[U(st.targets[0].slice)] = U(st.value)
    elif isinstance(st, ast.Assign) and isinstance(st.targets[0], ast.Tuple) and isinstance(st.value, ast.Tuple) and len(st.targets[0].elts) == len(st.value.elts):
      for t_, v_ in zip(st.targets[0].elts, st.value.elts):
        if isinstance(t_, ast.Subscript) and U(t_.value) == name:
          wr[U(t_.slice)] = U(v_)
  okc = wr.get(str(pos['cancelled'])) == 'True' and all(k in (str(pos['cancelled']), str(pos['action'])) for k in wr)
  ctx.ob('C10.R2', cn, 'cancel sets the cancelled flag of its own entry only', okc, 'cancel writes %s' % wr,
         'an action cancelled before its deadline never runs, and cancelling never affects any other action')
  # cancel touches nothing else (no queue surgery, no event)
  others = [U(c.func) for c in ast.walk(cn.node) if isinstance(c, ast.Call)]
  others += [U(x) for x in ast.walk(cn.node) if isinstance(x, ast.Attribute) and U(x).startswith('self._')]
  ctx.ob('C10.R2', cn, 'cancel does not touch the queue or the worker state', not others, 'cancel also uses %s' % others,
         'the worker has already peeked the head: removing entries behind its back makes it pop a different entry than the one it timed (runs early / IndexError)')
  # readers
  pk = prog.try_func(T, 'TimerQueue._PeekNext')
  if pk is not None:
    rp = [n for n in walk_no_nested(pk.node) if isinstance(n, ast.Return)]
    okp = len(rp) == 1 and U(rp[0].value).replace(' ', '') == 'self._queue[0][:3]'
    if not okp and len(rp) == 1:
      # the three fields named one by one: (h[0], h[1], h[2]) with h the head of the queue
      for ev_, ex_ in enum_paths(ctx, pk):
        r_ = [e for e in ev_ if e.kind == 'ret']
        if r_:
          t_ = resolved_text(ev_, ev_.index(r_[-1]), r_[-1].node.value)
          okp = t_ in ('(self._queue[0][0],self._queue[0][1],self._queue[0][2])', '[self._queue[0][0],self._queue[0][1],self._queue[0][2]]')
    ctx.ob('C10.R2', pk, 'peek reads the first three fields of the head', okp, 'peek returns %s' % [U(r.value) for r in rp], why)
  un = [st for st in ast.walk(wk.node) if isinstance(st, ast.Assign) and isinstance(st.targets[0], ast.Tuple) and isinstance(st.value, (ast.Call, ast.Subscript))]
  peek_un = [st for st in un if is_peek(st.value)]
  pop_un = [st for st in un if isinstance(st.value, ast.Call) and call_name(st.value) in ('heapq.heappop', 'heappop')]
  okr = len(set(U(x) for x in peek_un)) == 1 and len(set(U(x) for x in pop_un)) == 1     # (a duplicated branch repeats the same statement)
  names = {}
  if okr:
    pe = [U(e) for e in peek_un[0].targets[0].elts]
    po = [U(e) for e in pop_un[0].targets[0].elts]
    okr = len(pe) == 3 and len(po) == 4
    names = {'peek': pe, 'pop': po}
  ctx.ob('C10.R2', wk, 'worker unpacks peek as 3 and pop as 4 fields', okr, 'unpackings: %s' % names, why)
  return pos, names


def r3(ctx, sch):
  why = 'a new earliest deadline must wake the sleeping worker; the entry has to be in the heap before the worker is woken'
  for ev, ex in enum_paths(ctx, sch):
    if ex[0] != 'ret':
      continue
    push = [i for i, e in enumerate(ev) if e.kind == 'call' and call_name(e.node) in ('heapq.heappush', 'heappush')]
    sets = [i for i, e in enumerate(ev) if e.kind == 'call' and U(e.node.func) == 'self._event.set']
    fs = FACTS(ev)
    head = [c for c, t in POS(fs) if c.startswith('self._queue[0][0]')]
    if not push:
      continue
    if sets:
      ok = push[0] < sets[0] and not any(e.kind == 'call' and is_yield_call(e.node) for e in ev[push[0]:sets[0]])
      ctx.ob('C10.R3', sch, 'push precedes set with no yield between', ok, 'order push=%s set=%s' % (push, sets), why)
    else:
      # no wake on this path: allowed only when the new entry is not the head
      ok = any(c.replace(' ', '') in ('self._queue[0][0]==%s' % sch.params[1],) and not t for c, t in POS(fs)) or any(
        c.startswith('self._queue[0]is') and not t for c, t in POS(fs))
      ctx.ob('C10.R3', sch, 'no wake only when the new entry is not the head', ok, 'path without event.set has facts %s' % fs,
             why + '; without the wake the worker sleeps until the previous head and the new action runs late')


def r4(ctx, tq, sch, wk):
  prog = ctx.prog
  loops = [n for n in wk.node.body if isinstance(n, ast.While)]
  if len(loops) != 1:
    raise AnalysisError('C10.R4: worker loop not found')
  # who may pop / push
  whyw = ('only the worker removes entries and only Schedule adds them: the worker pops "the head" assuming it is the entry it peeked and timed')
  poppers, pushers, raw = [], [], []
  for f in prog.all_funcs:
    if f.module.rel != T:
      continue
    for c in ast.walk(f.node):
      if isinstance(c, ast.Call) and isinstance(c.func, ast.Attribute) and U(c.func.value).endswith('._queue') and c.func.attr in (
          'pop', 'remove', 'clear', 'sort', 'insert', 'append', 'extend', 'reverse', 'popleft', 'appendleft'):
        raw.append('%s: %s' % (f.qualname, U(c)))
      if isinstance(c, (ast.Assign, ast.AugAssign, ast.Delete)) and f.name != '__init__':
        for t in (c.targets if not isinstance(c, ast.AugAssign) else [c.target]):
          if isinstance(t, ast.Subscript) and U(t.value).endswith('._queue') and not isinstance(t.slice, ast.Slice) and not (isinstance(c, ast.Assign) and False):
            # an item assignment on the heap list itself (not on an entry) reorders it behind heapq's back
            raw.append('%s: %s' % (f.qualname, U(c)))
    for c in walk_no_nested(f.node):
      if isinstance(c, ast.Call):
        nm = call_name(c) or ''
        a0 = U(c.args[0]) if c.args else ''
        if nm.split('.')[-1] in ('heappop', 'heapreplace', 'heappushpop') and a0.endswith('_queue'):
          poppers.append(f.qualname)
        if isinstance(c.func, ast.Attribute) and U(c.func.value).endswith('._queue') and c.func.attr in ('pop', 'remove', 'clear', 'sort', 'insert', 'append', 'extend'):
          (poppers if c.func.attr in ('pop', 'remove', 'clear') else pushers).append(f.qualname)
        if nm.split('.')[-1] == 'heappush' and a0.endswith('_queue'):
          pushers.append(f.qualname)
    for st in walk_no_nested(f.node):
      if isinstance(st, (ast.Assign, ast.AugAssign, ast.Delete)) and f.name != '__init__':
        for t in (st.targets if not isinstance(st, ast.AugAssign) else [st.target]):
          if U(t).startswith('self._queue'):
            poppers.append(f.qualname)
  ctx.ob('C10.R4', tq, 'only the worker pops the queue', sorted(set(poppers)) == ['TimerQueue._TimerWorker'], 'queue entries are removed in %s' % sorted(set(poppers)), whyw)
  ctx.ob('C10.R4', tq, 'the queue list is changed through heapq only (heappush / heappop keep the earliest deadline at index 0)', not raw,
         'list operation on the heap: %s' % raw, 'actions run in deadline order: the worker serves index 0, which is the earliest entry only while every insertion and removal goes through heapq')
  ctx.ob('C10.R4', tq, 'only Schedule pushes', sorted(set(pushers)) == ['TimerQueue.Schedule'], 'queue entries are added in %s' % sorted(set(pushers)), whyw)
  sp = [c for f in tq.methods.values() for c in ast.walk(f.node) if isinstance(c, ast.Call) and call_name(c) == 'gevent.spawn' and c.args and U(c.args[0]) == 'self._TimerWorker']
  ctx.ob('C10.R4', tq, 'exactly one worker per queue', len(sp) == 1, 'worker spawned %d times' % len(sp), 'a single consumer', nontrivial=False)

  why = ('an action runs exactly once, not before its deadline: the head may be popped and run only after the clock reached it '
         '(to_wait <= 0) or the wait for it timed out with no newer head; a cancelled entry is dropped without running')
  why5 = ('lost wake-up: if the event is cleared after the head was read, or something yields between reading the head and waiting on it, '
          'a Schedule of an earlier deadline in that window is missed and that action runs late')
  paths = enum_paths(ctx, wk, body=loops[0].body)
  n_run = n_cancel = 0
  for ev, ex in paths:
    fs = FACTS(ev)
    idx = dict((k, [i for i, e in enumerate(ev) if e.kind == 'call' and pred(e.node)]) for k, pred in {
      'peek': lambda c: call_attr(c) == '_PeekNext',
      'pop': lambda c: (call_name(c) or '').split('.')[-1] == 'heappop',
      'spawn': lambda c: call_name(c) == 'gevent.spawn',
      'clear': lambda c: U(c.func) == 'self._event.clear',
      'wait': lambda c: U(c.func) == 'self._event.wait',
      'twait': lambda c: U(c.func) == 'self._event.wait' and bool(c.args),
      'now': lambda c: U(c.func) == 'self._time_source',
    }.items())
    # the head may be read through _PeekNext() or directly (self._queue[0][:3])
    peek_stmts = [(i, e.node) for i, e in enumerate(ev) if e.kind == 'stmt' and isinstance(e.node, ast.Assign) and is_peek(e.node.value)]
    idx['peek'] = sorted(set(idx['peek']) | set(i for i, _ in peek_stmts))
    if len(idx['pop']) > 1 or len(idx['spawn']) > 1:
      ctx.ob('C10.R4', wk, 'at most one pop and one spawn per iteration', False, 'path pops %d, spawns %d' % (len(idx['pop']), len(idx['spawn'])), why)
    # every pop is preceded by a peek in the same iteration
    if idx['pop']:
      ctx.ob('C10.R4', wk, 'pop only after peeking the head', bool(idx['peek']) and idx['peek'][-1] < idx['pop'][0], 'pop without a preceding peek', why)
    if idx['spawn']:
      n_run += 1
      sp = ev[idx['spawn'][0]].node
      # popped entry: names from the pop unpack
      pop_st = [e.node for e in ev if e.kind == 'stmt' and isinstance(e.node, ast.Assign) and isinstance(e.node.value, ast.Call)
                and (call_name(e.node.value) or '').split('.')[-1] == 'heappop']
      ok = bool(pop_st) and isinstance(pop_st[0].targets[0], ast.Tuple) and len(pop_st[0].targets[0].elts) == 4
      if ok:
        at2, seq2, canc2, act2 = [U(x) for x in pop_st[0].targets[0].elts]
        ok = [U(a) for a in sp.args] == [act2] and idx['pop'][0] < idx['spawn'][0]
        # cancelled flag of the *popped* entry tested after the pop
        after = FACTS(ev[idx['pop'][0]:idx['spawn'][0]])
        ok = ok and ((canc2, False) in after)
      ctx.ob('C10.R4', wk, 'runs the popped action once, only if its cancelled flag is clear', ok, 'spawn is %s' % U(sp), why)
      # never early: to_wait = <peeked deadline> - now, resolved through the assignments on the path
      peek_st = [n for _, n in peek_stmts]
      at1 = U(peek_st[-1].targets[0].elts[0]) if peek_st and isinstance(peek_st[-1].targets[0], ast.Tuple) else None
      canc1 = U(peek_st[-1].targets[0].elts[2]) if peek_st and isinstance(peek_st[-1].targets[0], ast.Tuple) and len(peek_st[-1].targets[0].elts) > 2 else '?'
      gate = [(c, t, i) for c, t, i in FACTS_I(ev) if c.endswith('>0') and i < idx['pop'][0]] if idx['pop'] else []
      env = sym_env(ev, idx['pop'][0] if idx['pop'] else None)
      tw_expr = None
      for e in ev:
        if e.kind == 'cond':
          sub = sym_resolve(e.node, sym_env(ev, ev.index(e)))
          t_ = U(sub).replace(' ', '')
          if t_ in ('%s-self._time_source()>0' % at1, '0<%s-self._time_source()' % at1, '%s-self._time_source()<=0' % at1, '%s>self._time_source()' % at1):
            tw_expr = t_
      ctx.ob('C10.R4', wk, 'the wait is decided on: peeked deadline - now > 0', tw_expr is not None, 'no test of <peeked deadline> - self._time_source() against 0 on the run path', why)
      expired = ('%s-self._time_source()>0' % at1, False) in FACTS(ev) or ('to_wait>0', False) in fs
      timed_out = False
      waited_on = None
      if idx['twait']:
        w = ev[idx['twait'][-1]].node
        warg = sym_resolve(w.args[0], sym_env(ev, idx['twait'][-1]))
        waited_on = U(warg).replace(' ', '')
        timed_out = (U(w).replace(' ', ''), False) in fs or (U(sym_resolve(w, sym_env(ev, idx['twait'][-1]))).replace(' ', ''), False) in fs
      ok_arg = (waited_on is None) or waited_on == '%s-self._time_source()' % at1
      ctx.ob('C10.R4', wk, 'the worker waits exactly for the remaining time of the peeked head', ok_arg, 'waits for %s' % waited_on, why)
      ctx.ob('C10.R4', wk, 'pop-and-run only when the head is due or its wait timed out', (expired and not idx['twait']) or timed_out,
             'run path: expired=%s, waits=%s, wait timed out=%s' % (expired, bool(idx['twait']), timed_out), why)
      # never early on the queue's own clock: the last thing that can take time before the pop is a yield
      # (the timed wait, measured on the wall clock); after it the queue clock must be read again and
      # compared with the peeked deadline
      popi = idx['pop'][0] if idx['pop'] else len(ev)
      ys = [i for i, e in enumerate(ev[:popi]) if e.kind == 'call' and is_yield_call(e.node)]
      start = ys[-1] + 1 if ys else 0
      due = False
      A = at1
      for j in range(start, popi):
        e = ev[j]
        if e.kind != 'cond':
          continue
        t_ = U(sym_resolve(e.node, sym_env(ev[start:], j - start))).replace(' ', '')
        now = 'self._time_source()'
        if bool(e.info) is False and t_ in ('%s<%s' % (now, A), '%s>%s' % (A, now), '%s-%s>0' % (A, now), '0<%s-%s' % (A, now)):
          due = True
        if bool(e.info) is True and t_ in ('%s>=%s' % (now, A), '%s<=%s' % (A, now), '%s-%s<=0' % (A, now), '0>=%s-%s' % (A, now)):
          due = True
      ctx.ob('C10.R4', wk, 'the queue clock is read after the last wait and has reached the peeked deadline', due,
             'run path pops after a %s without comparing a fresh clock reading with the deadline' % ('timed wait' if idx['twait'] else 'yield'),
             'the wait is measured on the wall clock; the queue\'s own clock (time_source, e.g. the 1 s tick clock of LOW_RESOLUTION_TIMER_QUEUE) '
             'may not have reached the deadline when the wait times out: the action would start before T on the queue\'s clock')
      ctx.ob('C10.R4', wk, 'peeked head was not cancelled', (canc1, False) in fs,
             'run path does not test the peeked cancelled flag', why, nontrivial=False)
    elif idx['pop']:
      # pop without running: the cancelled head
      n_cancel += 1
      cnames = set(['cancelled'])
      for e_ in ev:
        if e_.kind == 'stmt' and isinstance(e_.node, ast.Assign) and isinstance(e_.node.targets[0], ast.Tuple):
          el = e_.node.targets[0].elts
          if is_peek(e_.node.value) and len(el) >= 3:
            cnames.add(U(el[2]))
          if isinstance(e_.node.value, ast.Call) and (call_name(e_.node.value) or '').split('.')[-1] == 'heappop' and len(el) == 4:
            cnames.add(U(el[2]))
      ok = any((c in cnames and t) or (c[3:] in cnames and c.startswith('not') and not t) for c, t in fs) or any(c.endswith('cancelled') and t for c, t in POS(fs))
      ctx.ob('C10.R4', wk, 'an entry is dropped without running only if it is cancelled', ok, 'drop path has facts %s' % fs, why + '; dropping a live entry loses its action')
    elif idx['twait'] and not idx['pop']:
      # woken by a newer item: nothing popped, loop again
      pass
    # R5
    if idx['twait']:
      w = idx['twait'][-1]
      pk = [i for i in idx['peek'] if i < w]
      ok = bool(pk)
      if ok:
        ok = not [i for i in idx['clear'] if pk[-1] < i < w]
        ok = ok and not [i for i, e in enumerate(ev) if pk[-1] < i < w and e.kind == 'call' and is_yield_call(e.node)]
      ctx.ob('C10.R5', wk, 'no clear and no yield between reading the head and waiting on it', ok, 'order peek=%s clear=%s wait=%s' % (idx['peek'], idx['clear'], idx['twait']), why5)
    if idx['clear']:
      c = idx['clear'][0]
      ok = ('self._event.is_set()', True) in fs
      later_peek = [i for i in idx['peek'] if i > c]
      ok = ok and (bool(later_peek) or not idx['twait'])
      ctx.ob('C10.R5', wk, 'event cleared only when set, and the head is (re)read afterwards', ok, 'clear at %s, peeks at %s' % (idx['clear'], idx['peek']), why5)
    # empty queue: wait without timeout before peeking
    if ('notself._queue', True) in fs or ('self._queue', False) in fs:
      un = [i for i in idx['wait'] if i not in idx['twait']]
      ok = bool(un) and (not idx['peek'] or un[0] < idx['peek'][0])
      ctx.ob('C10.R4', wk, 'empty queue waits for the event before peeking', ok, 'empty-queue path peeks without waiting', 'peeking an empty heap raises IndexError and kills the worker')
  ctx.floor('C10.R4', 'worker run paths', n_run, 2)
  ctx.floor('C10.R4', 'worker cancelled-head paths', n_cancel, 1)
  gq = prog.module(T).assigns.get('GLOBAL_TIMER_QUEUE')
  ctx.ob('C10.R4', tq, 'GLOBAL_TIMER_QUEUE is a TimerQueue with default 10 ms resolution', gq is not None and U(gq) == 'TimerQueue()', 'GLOBAL_TIMER_QUEUE = %s' % (U(gq) if gq is not None else None),
         'call deadlines are rounded up to the 10 ms resolution', nontrivial=False)
  init = tq.methods['__init__']
  res_default = dict(zip(init.params[-len(init.node.args.defaults):], [U(x) for x in init.node.args.defaults])).get('resolution')
  ctx.ob('C10.R4', init, 'default resolution 0.01', res_default == '0.01', 'default resolution is %s' % res_default, 'timer resolution of 10 ms', nontrivial=False)
