"""C09 Failed endpoints fail fast and are used again once reachable."""
import ast

from ..model import AnalysisError, dotted, unparse
from ..util import resolved_text, sym_env, FACTS, FACTS_I, U, enum_paths, walk_no_nested, is_yield_call
from ..paths import call_attr, call_name

R = 'scales/resurrector.py'
OBS = 'scales/observable.py'


def facts(ev, upto=None):
  return FACTS(ev if upto is None else ev[:upto])


def _returns_underlying_open(ev, ret):
  """The returned value is <the sink held by self.next_sink at that point>.Open(): literally, or through a
  local that the path shows to hold the same object (bound from the attribute with no later store, or the very
  value stored into the attribute)."""
  v = ret.node.value
  if not (isinstance(v, ast.Call) and isinstance(v.func, ast.Attribute) and v.func.attr == 'Open' and not v.args and not v.keywords):
    return False
  if U(v.func.value).replace(' ', '') == 'self.next_sink':
    return True
  k = ev.index(ret)
  recv = resolved_text(ev, k, v.func.value)
  stores = [i for i, e in enumerate(ev[:k]) if e.kind == 'stmt' and isinstance(e.node, ast.Assign)
            and any(U(t).replace(' ', '') == 'self.next_sink' for t in e.node.targets)]
  if not stores:
    return recv == 'self.next_sink'
  j = stores[-1]
  if recv == 'self.next_sink' and isinstance(v.func.value, ast.Name):
    binds = [i for i, e in enumerate(ev[:k]) if e.kind == 'stmt' and isinstance(e.node, ast.Assign) and any(isinstance(t, ast.Name) and t.id == v.func.value.id for t in e.node.targets)]
    if binds and binds[-1] > j:
      return True       # read back from the attribute after the store
  return recv == resolved_text(ev, j, ev[j].node.value) and recv != 'None'


def check(ctx):
  prog = ctx.prog
  ctx.rule('C09.R1', 'fail fast: no underlying sink -> answer FailedFastError without forwarding; otherwise forward')
  ctx.rule('C09.R2', 'first fault: mark down, detach and close the sink, unsubscribe, always start the retry greenlet; the fault signal is propagated on every path')
  ctx.rule('C09.R3', 'retry loop: sleep(wait), create, Open() observed with get(); success = subscribe + install + clear down mark + return; failure = close, grow the wait and cap it with min(wait, max); GreenletExit ends the loop')
  ctx.rule('C09.R4', 'Close kills the retry greenlet without blocking, clears the down mark, unsubscribes and closes the current sink')
  ctx.rule('C09.R5', 'fault chain: every sink a pool creates has the pool fault propagator subscribed; every sink the resurrector installs has _OnSinkFaulted subscribed; state maps the down mark to Closed; notifications honour Unsubscribe up to delivery')
  ctx.rule('C03.R2', 'shared with C03: the balancer down-queue scan marks a member up again when its channel reports open, without dropping other still-down members from the queue')
  ctx.rule('C09.R6', 'open results are observed: the value of Open() is consumed by get(), an exception test, a continuation, or handed to the caller; a bare wait() drops the error')
  ctx.decline('liveness over virtual time and spacing of attempts are not decided')
  r1(ctx)
  r2(ctx)
  r3(ctx)
  r4(ctx)
  r5(ctx)
  r6(ctx)
  from . import c03, c08
  c03.r2(ctx)
  ctx.rule('C08.R4', 'shared with C08: a failed transport open shuts down with the fault signal (the resurrector fails fast and retries on it)')
  c08.failed_open_rules(ctx)
  ctx.rule('C08.R4', 'shared with C08: the shutdown of a multiplexed transport runs to its end without blocking (it is entered from the transport loops themselves) and raises the fault signal: '
                     'the resurrector marks the endpoint down, fails fast and starts retrying only on that signal')
  c08.r4(ctx)
  balancer_close(ctx)
  channel_closers(ctx)
  socket_close(ctx)
  from . import c07
  c07.dead_release_keeps_subscription(ctx, 'C09.R5')
  from . import c04
  ctx.rule('C04.R4', 'shared with C04: a member taken out of the balancer has its channel (the resurrector of a failed endpoint included) closed, at once when it is idle or marked down '
                     '(a down member is penalised to load >= 0; exactly 0 when it was idle): an orphaned resurrector keeps reconnecting after the client is closed')
  c04.r4(ctx)
  from . import c06
  ctx.rule('C06.R2', 'shared with C06: the aperture gives a member back only while more than min_size HEALTHY members are active (contraction prefers closed members: '
                     'counting all members instead evicts the endpoint that is down, closing its resurrector -- it is never retried and never used again once reachable)')
  c06.r2(ctx)


def r1(ctx):
  prog = ctx.prog
  f = prog.func(R, 'ResurrectorSink.AsyncProcessRequest')
  stack = f.params[1]
  why = 'while the endpoint is down requests fail immediately with a fail-fast error instead of being sent to (or waiting on) a dead connection'
  seen = {}
  for ev, ex in enum_paths(ctx, f):
    fs = facts(ev)
    fwd = [e for e in ev if e.kind == 'call' and call_attr(e.node) == 'AsyncProcessRequest']
    ups = [e.node for e in ev if e.kind == 'call' and call_attr(e.node) in ('AsyncProcessResponseMessage', 'AsyncProcessResponse') and U(e.node.func.value) == stack]
    if ('self.next_sinkisNone', True) in fs or ('notself.next_sink', True) in fs or ('self.next_sink', False) in fs:
      seen['down'] = not fwd and len(ups) == 1 and 'FailedFastError()' in U(ups[0]) and 'error=' in U(ups[0])
    else:
      seen['up'] = len(fwd) == 1 and U(fwd[0].node.func.value) == 'self.next_sink' and not ups
  ctx.ob('C09.R1', f, 'down: FailedFastError, nothing forwarded', seen.get('down', False), 'down branch: %s' % seen.get('down'), why)
  ctx.ob('C09.R1', f, 'up: forwarded to the underlying sink', seen.get('up', False), 'up branch: %s' % seen.get('up'), why)


def r2(ctx):
  prog = ctx.prog
  f = prog.func(R, 'ResurrectorSink._OnSinkFaulted')
  why = ('the first fault of the underlying sink must switch to fail-fast mode and start reconnecting - on every outage, not only the first one in '
         'the client\'s lifetime')
  n = 0
  for ev, ex in enum_paths(ctx, f):
    fs = facts(ev)
    prop = [e for e in ev if e.kind == 'call' and U(e.node.func) == 'self.on_faulted.Set']
    ctx.ob('C09.R2', f, 'fault signal propagated upward on every path', len(prop) == 1 and ex[0] == 'ret', 'propagations: %d' % len(prop),
           'the balancer learns through this signal chain that the member is down')
    if ('notself._down_on', True) in fs or ('self._down_on', False) in fs or ('self._down_onisNone', True) in fs:
      n += 1
      w = {}
      for e in ev:
        if e.kind == 'stmt' and isinstance(e.node, ast.Assign):
          t = e.node.targets[0]
          if isinstance(t, ast.Tuple) and isinstance(e.node.value, ast.Tuple):
            for a, b in zip(t.elts, e.node.value.elts):
              w[U(a)] = U(b)
          else:
            w[U(t)] = U(e.node.value)
      spawn = [e.node for e in ev if e.kind == 'call' and call_name(e.node) == 'gevent.spawn' and e.node.args and U(e.node.args[0]) == 'self._TryResurrect']
      closes = [e for e in ev if e.kind == 'call' and call_attr(e.node) == 'Close']
      unsub = [e for e in ev if e.kind == 'call' and call_attr(e.node) == 'Unsubscribe' and 'self._OnSinkFaulted' in U(e.node)]
      ok = (w.get('self._down_on') == 'time.time()' and w.get('self.next_sink') == 'None' and len(spawn) == 1 and len(closes) == 1 and len(unsub) == 1)
      ctx.ob('C09.R2', f, 'first fault: down mark set, sink detached+closed+unsubscribed, retry greenlet started', ok,
             'first-fault path: writes %s, spawns %d, closes %d, unsubscribes %d' % (sorted(w.items()), len(spawn), len(closes), len(unsub)), why)
      ctx.ob('C09.R2', f, 'the retry greenlet handle is kept for Close', w.get('self._resurrector', '').startswith('gevent.spawn('), 'resurrector handle: %s' % w.get('self._resurrector'),
             'Close must be able to kill it')
    else:
      spawn = [e for e in ev if e.kind == 'call' and call_name(e.node) == 'gevent.spawn']
      ctx.ob('C09.R2', f, 'repeated fault while down starts no second retry greenlet', not spawn, 'second fault spawns again', 'one reconnect loop per endpoint')
  ctx.floor('C09.R2', 'first-fault paths', n, 1)


def r3(ctx):
  prog = ctx.prog
  f = prog.func(R, 'ResurrectorSink._TryResurrect')
  why = ('reconnection is retried with growing delays capped at the configured maximum, and once the endpoint is reachable the new sink is installed '
         'and fail-fast mode ends')
  loops = [n for n in f.node.body if isinstance(n, ast.While)]
  if len(loops) != 1:
    raise AnalysisError('C09.R3: retry loop not found')
  pre = [st for st in f.node.body if isinstance(st, ast.Assign) and U(st.targets[0]) == 'wait_interval']
  ctx.ob('C09.R3', f, 'wait starts at the configured initial interval', len(pre) == 1 and U(pre[0].value) == 'self._initial_wait_interval', 'initial wait is %s' % [U(p.value) for p in pre], why)

  def mr(call, armed):
    if call_attr(call) == 'get' and not call.args:
      return ['Exception', 'GreenletExit']
    if call_name(call) == 'gevent.sleep':
      return ['GreenletExit']
    return []
  seen = {'success': [], 'failure': [], 'exit': []}
  for ev, ex in enum_paths(ctx, f, mr, body=loops[0].body):
    raised = [e for e in ev if e.kind == 'call' and e.info]
    idx = lambda pred: [i for i, e in enumerate(ev) if pred(e)]
    sl = idx(lambda e: e.kind == 'call' and call_name(e.node) == 'gevent.sleep')
    cr = idx(lambda e: e.kind == 'call' and call_attr(e.node) == 'CreateSink')
    if raised and raised[0].info == 'GreenletExit':
      seen['exit'].append(ex[0] in ('ret', 'raise'))
      if call_attr(raised[0].node) == 'get':
        # killed while the attempt is in flight: the half-opened sink belongs to nobody any more and must be closed
        cl = [e for e in ev if e.kind == 'call' and call_attr(e.node) == 'Close']
        seen.setdefault('exit_closes', []).append(len(cl) == 1)
      continue
    okhead = len(sl) == 1 and [U(a) for a in ev[sl[0]].node.args] == ['wait_interval'] and (not cr or sl[0] < cr[0])
    fs_ = FACTS(ev)
    if not raised and (('self._down_on', False) in fs_ or ('notself._down_on', True) in fs_):
      # Close() ran while the attempt was in flight (it clears the down mark): the fresh sink is closed, not adopted
      cl = [e for e in ev if e.kind == 'call' and call_attr(e.node) == 'Close']
      inst = [e for e in ev if e.kind == 'stmt' and isinstance(e.node, ast.Assign) and U(e.node.targets[0]) == 'self.next_sink']
      seen.setdefault('closed_meanwhile', []).append(len(cl) == 1 and not inst and ex[0] == 'ret')
      continue
    if not raised:
      # success
      seen.setdefault('recheck', []).append(('self._down_on', True) in fs_ or ('notself._down_on', False) in fs_)
      w = dict((U(e.node.targets[0]), U(e.node.value)) for e in ev if e.kind == 'stmt' and isinstance(e.node, ast.Assign))
      sub = [e.node for e in ev if e.kind == 'call' and call_attr(e.node) == 'Subscribe' and 'self._OnSinkFaulted' in U(e.node)]
      obs = [e.node for e in ev if e.kind == 'call' and call_attr(e.node) == 'get' and 'Open()' in U(e.node)]
      sinkname = w.get('self.next_sink')
      ok = (okhead and len(cr) == 1 and len(obs) == 1 and len(sub) == 1 and sinkname is not None and U(sub[0].func).startswith(sinkname + '.')
            and w.get('self._down_on') == 'None' and ex[0] == 'ret')
      seen['success'].append(ok)
    else:
      h = [e for e in ev if e.kind == 'handler']
      closes = [e for e in ev if e.kind == 'call' and call_attr(e.node) == 'Close']
      # value of the wait at the end of the iteration, resolved through the assignments of the failing iteration
      env = sym_env(ev)
      final = U(env.get('wait_interval', ast.Name(id='wait_interval', ctx=ast.Load()))).replace(' ', '')
      grown = ['wait_interval**self._backoff_exponent', 'wait_interval*self._backoff_exponent']
      okcap = any(final in ('min(%s,self._max_wait_interval)' % g, 'min(self._max_wait_interval,%s)' % g) for g in grown)
      inst = [e for e in ev if e.kind == 'stmt' and isinstance(e.node, ast.Assign) and U(e.node.targets[0]) in ('self.next_sink', 'self._down_on')]
      ok = okhead and bool(h) and len(closes) == 1 and okcap and not inst and ex[0] in ('fall', 'continue')
      seen.setdefault('final', []).append(final)
      seen['failure'].append(ok)
  ctx.ob('C09.R3', f, 'success: sleep, create, Open().get(), subscribe the new sink, install it, clear the down mark, return', bool(seen['success']) and all(seen['success']),
         'success paths: %s' % seen['success'], why)
  ctx.ob('C09.R3', f, 'failure: close the attempt, grow the wait, cap it with min(wait, max), loop again', bool(seen['failure']) and all(seen['failure']),
         'failure paths: %s, next wait = %s' % (seen['failure'], seen.get('final')), why + '; "max" instead of "min" (or a missing cap) makes the delay jump to / beyond the maximum and traffic resumes late')
  ctx.ob('C09.R3', f, 'an attempt killed in flight (Close during Open().get()) closes its half-opened sink', bool(seen.get('exit_closes')) and all(seen['exit_closes']),
         'the GreenletExit handler returns without closing the sink it was opening: the connection is established and pinged for ever after Close()',
         'after the client is closed no further reconnection attempts are made (and none may stay alive)')
  ctx.ob('C09.R3', f, 'a sink whose open completed after Close() is not adopted', bool(seen.get('recheck')) and all(seen['recheck']) and bool(seen.get('closed_meanwhile')) and all(seen['closed_meanwhile']),
         'the success path installs the new sink without re-checking the down mark: when the open result was already set, the "killed" greenlet resumes first, adopts the sink, '
         'and the closed resurrector keeps reconnecting on every later outage (re-check %s, closed-meanwhile path %s)' % (seen.get('recheck'), seen.get('closed_meanwhile')),
         'after the client is closed no further reconnection attempts are made')
  ctx.ob('C09.R3', f, 'GreenletExit ends the retry loop', bool(seen['exit']) and all(seen['exit']), 'exit paths: %s' % seen['exit'], 'after Close no further attempts are made')
  # the stock retry policy: x ** e grows only for x > 1 (and e > 1); the first delay must not exceed the cap
  bld = None
  for tgt, val in prog.module(R).attr_assigns:
    if U(tgt) == 'ResurrectorSink.Builder' and isinstance(val, ast.Call):
      bld = dict((k.arg, k.value) for k in val.keywords)
  okp = False
  desc = 'ResurrectorSink.Builder defaults not found'
  if bld is not None:
    try:
      iv = float(prog.const_eval(bld['initial_wait_interval'], prog.module(R)))
      mx = float(prog.const_eval(bld['max_wait_interval'], prog.module(R)))
      ex_ = float(prog.const_eval(bld['backoff_exponent'], prog.module(R)))
      okp = ex_ > 1 and iv > 1 and iv ** ex_ > iv and mx >= iv
      desc = 'initial_wait_interval=%s, backoff_exponent=%s, max_wait_interval=%s' % (iv, ex_, mx)
    except Exception:
      pass
  ctx.ob('C09.R3', prog.cls(R, 'ResurrectorSink'), 'the stock retry policy grows (initial > 1, exponent > 1) and starts below the cap', okp, desc,
         'reconnection is retried with growing delays capped at the configured maximum; 1 is a fixed point of x ** e and values below 1 shrink towards a reconnect storm')
  init = prog.func(R, 'ResurrectorSink.__init__')
  t = U(init.node).replace(' ', '')
  ok = all(x in t for x in ('self._initial_wait_interval=sink_properties.initial_wait_interval', 'self._max_wait_interval=sink_properties.max_wait_interval',
                            'self._backoff_exponent=sink_properties.backoff_exponent'))
  ctx.ob('C09.R3', init, 'retry parameters come from the sink properties', ok, '__init__ changed', why, nontrivial=False)


def r4(ctx):
  prog = ctx.prog
  f = prog.func(R, 'ResurrectorSink.Close')
  why = 'after the client is closed no further reconnection attempts are made'
  kill_paths = 0
  for ev, ex in enum_paths(ctx, f):
    fs = facts(ev)
    w = dict((U(e.node.targets[0]), U(e.node.value)) for e in ev if e.kind == 'stmt' and isinstance(e.node, ast.Assign))
    if any(e.kind == 'call' and call_attr(e.node) == 'kill' for e in ev):
      kill_paths += 1
    if ('self._resurrector', True) in fs:
      kills = [e.node for e in ev if e.kind == 'call' and call_attr(e.node) == 'kill' and U(e.node.func.value) == 'self._resurrector']
      ok = len(kills) == 1 and any(k.arg == 'block' and U(k.value) == 'False' for k in kills[0].keywords)
      ctx.ob('C09.R4', f, 'Close kills the retry greenlet (non-blocking)', ok, 'kill is %s' % [U(k) for k in kills], why)
    ctx.ob('C09.R4', f, 'Close clears the down mark', w.get('self._down_on') == 'None', 'writes: %s' % w, 'a closed resurrector is not "down"; a later Open starts fresh')
    if ('self.next_sink', True) in fs:
      un = [e for e in ev if e.kind == 'call' and call_attr(e.node) == 'Unsubscribe' and 'self._OnSinkFaulted' in U(e.node)]
      cl = [e for i_, e in enumerate(ev) if e.kind == 'call' and call_attr(e.node) == 'Close' and resolved_text(ev, i_, e.node.func.value) == 'self.next_sink']
      ctx.ob('C09.R4', f, 'Close unsubscribes from and closes the current sink', len(un) == 1 and len(cl) == 1, 'unsubscribes %d, closes %d' % (len(un), len(cl)),
             why + ' (a fault of the sink being closed must not start a new retry loop)')


  ctx.ob('C09.R4', f, 'Close has a path that kills a running retry greenlet', kill_paths >= 1, 'no path of Close kills the retry greenlet', why)


def r5(ctx):
  prog = ctx.prog
  why = 'a connection fault travels transport -> pool -> resurrector -> balancer through on_faulted subscriptions; a missing link means the failure is never noticed'
  for rel, cname in (('scales/pool/watermark.py', 'WatermarkPoolSink'), ('scales/pool/singleton.py', 'SingletonPoolSink')):
    g = prog.func(rel, cname + '._Get')
    n = 0
    for ev, ex in enum_paths(ctx, g):
      cr = [e for e in ev if e.kind == 'call' and call_attr(e.node) == 'CreateSink']
      if not cr:
        continue
      n += 1
      # the propagator: a private method of the pool that raises the pool's own fault signal with the value it is given
      cls_ = prog.cls(rel, cname)
      props = [m for m in cls_.methods.values() if len(m.params) == 2 and m.node.body and
               U(m.node.body[-1]).replace(' ', '') == 'self.on_faulted.Set(%s)' % m.params[1]]
      names = set('self.' + m.name for m in props) | set('self.' + m.node.name for m in props)
      sub = [e for e in ev if e.kind == 'call' and call_attr(e.node) == 'Subscribe' and 'on_faulted' in U(e.node.func) and e.node.args and U(e.node.args[0]) in names]
      ctx.ob('C09.R5', g, 'created sink has the pool fault propagator subscribed', len(sub) == 1,
             'subscriptions of a propagator (a method whose body is self.on_faulted.Set(value); found: %s) on the creation path: %d' % (sorted(names), len(sub)), why)
    ctx.floor('C09.R5', 'creation paths of %s' % cname, n, 1)
  o = prog.func(R, 'ResurrectorSink.Open')
  for ev, ex in enum_paths(ctx, o):
    cr = [e for e in ev if e.kind == 'call' and call_attr(e.node) == 'CreateSink']
    if cr:
      sub = [e for e in ev if e.kind == 'call' and call_attr(e.node) == 'Subscribe' and 'self._OnSinkFaulted' in U(e.node)]
      ctx.ob('C09.R5', o, 'Open subscribes _OnSinkFaulted on the sink it creates', len(sub) == 1, 'subscriptions: %d' % len(sub), why)
    r = [e for e in ev if e.kind == 'ret']
    ctx.ob('C09.R5', o, 'Open returns the underlying open result', bool(r) and _returns_underlying_open(ev, r[-1]), 'Open returns %s' % (U(r[-1].node.value) if r else None),
           'the balancer observes this result to mark the node down')
  st = prog.func(R, 'ResurrectorSink.state')
  seen = {}
  for ev, ex in enum_paths(ctx, st):
    fs = facts(ev)
    r = [e for e in ev if e.kind == 'ret']
    v = U(r[-1].node.value) if r else None
    if ('self._down_on', True) in fs:
      seen['down'] = v.endswith('ChannelState.Closed')
    elif ('notself.next_sink', True) in fs or ('self.next_sink', False) in fs:
      seen['idle'] = v.endswith('ChannelState.Idle')
    else:
      seen['up'] = v == 'self.next_sink.state'
  ctx.ob('C09.R5', st, 'state: down mark -> Closed, no sink -> Idle, else the sink state', seen == {'down': True, 'idle': True, 'up': True}, 'state mapping: %s' % seen,
         'the balancer resurrects a down node when its channel reports Open again')
  # Observable: subscribers read at delivery time
  s = prog.func(OBS, 'Observable.Set')
  reads = [U(n) for n in ast.walk(s.node) if isinstance(n, ast.Attribute) and n.attr in ('_callbacks', '_one_shot_callbacks')]
  sp = [c for c in walk_no_nested(s.node) if isinstance(c, ast.Call) and call_name(c) == 'gevent.spawn']
  extra = [x for x in walk_no_nested(s.node) if isinstance(x, (ast.If, ast.Return, ast.For, ast.While))]
  ok = not reads and len(sp) == 1 and '__Notify' in U(sp[0].args[0]) and [U(a) for a in sp[0].args[1:]] == [s.params[1]] and not extra
  ctx.ob('C09.R5', s, 'Set stores the value and defers delivery; subscribers are read when the notification is delivered', ok,
         'Set reads %s, control flow %d, spawn %s' % (reads, len(extra), [U(x) for x in sp]),
         'Close() unsubscribes to ignore a fault already in flight: a snapshot taken at Set() time delivers it anyway and a closed resurrector starts reconnecting')
  nt = prog.func(OBS, 'Observable.__Notify')
  t = U(nt.node).replace(' ', '')
  ok_nt = 'self._callbacks.copy()' in t and 'self._one_shot_callbacks,None' in t
  if not ok_nt and 'self._callbacks.copy()' in t:
    # the swap written as two statements: the one-shot set is taken into a local, the attribute is cleared, then the local is iterated
    seq = []
    for st_ in ast.walk(nt.node):
      if isinstance(st_, ast.Assign) and len(st_.targets) == 1:
        if U(st_.value) == 'self._one_shot_callbacks' and isinstance(st_.targets[0], ast.Name):
          seq.append(('take', st_.targets[0].id, st_.lineno))
        elif U(st_.targets[0]) == 'self._one_shot_callbacks' and U(st_.value) == 'None':
          seq.append(('clear', None, st_.lineno))
    takes = [x for x in seq if x[0] == 'take']
    clears = [x for x in seq if x[0] == 'clear']
    if len(takes) == 1 and len(clears) == 1 and takes[0][2] <= clears[0][2]:
      its = [n_ for n_ in ast.walk(nt.node) if (isinstance(n_, ast.For) and U(n_.iter) == takes[0][1]) or (isinstance(n_, ast.comprehension) and U(n_.iter) == takes[0][1])]
      its = [n_ for n_ in its if getattr(n_, 'lineno', clears[0][2] + 1) >= clears[0][2]]
      direct = [n_ for n_ in ast.walk(nt.node) if isinstance(n_, (ast.For, ast.comprehension)) and 'self._one_shot_callbacks' in U(n_.iter)]
      ok_nt = bool(its) and not direct
  ctx.ob('C09.R5', nt, 'delivery iterates a copy of the current subscribers', ok_nt, '__Notify changed',
         'callbacks may (un)subscribe while being notified', nontrivial=False)
  un = prog.func(OBS, 'Observable.Unsubscribe')
  t = U(un.node).replace(' ', '')
  ctx.ob('C09.R5', un, 'Unsubscribe removes the callback from both subscriber sets', 'self._callbacks.discard(%s)' % un.params[1] in t and 'self._one_shot_callbacks.discard(%s)' % un.params[1] in t,
         'Unsubscribe changed', why, nontrivial=False)


def consumption(prog, f, call, parents):
  """How is the value of call (an Open() call) consumed?"""
  p = parents.get(id(call))
  # method call on the result
  if isinstance(p, ast.Attribute) and p.value is call:
    pp = parents.get(id(p))
    if isinstance(pp, ast.Call) and pp.func is p:
      m = p.attr
      if m == 'wait':
        return 'wait'
      if m in ('get', 'ContinueWith', 'Map', 'rawlink', 'Unwrap', 'SafeLink'):
        return m
      return 'method:' + m
  if isinstance(p, ast.Return):
    return 'returned'
  if isinstance(p, ast.Assign):
    t = p.targets[0]
    if isinstance(t, ast.Attribute):
      return 'stored'
    if isinstance(t, ast.Name):
      # local: how is the local used?
      uses = []
      for n in ast.walk(f.node):
        if isinstance(n, ast.Attribute) and isinstance(n.value, ast.Name) and n.value.id == t.id:
          uses.append(n.attr)
        if isinstance(n, ast.Return) and isinstance(n.value, ast.Name) and n.value.id == t.id:
          uses.append('returned')
        if isinstance(n, ast.Call) and any(isinstance(a, ast.Name) and a.id == t.id for a in n.args):
          uses.append('passed')
      if any(u in ('get', 'exception', 'ContinueWith', 'returned', 'passed', 'successful', 'Map') for u in uses):
        return 'local:' + ','.join(sorted(set(uses)))
      if 'wait' in uses:
        return 'wait'
      return 'local-unused'
  if isinstance(p, ast.Expr):
    return 'discarded'
  if isinstance(p, ast.Call) and call in p.args:
    return 'passed'
  if isinstance(p, (ast.List, ast.Tuple, ast.ListComp)):
    return 'collected'
  return 'other:' + type(p).__name__


def r6(ctx):
  prog = ctx.prog
  why = ('an Open() that fails must be noticed by whoever asked for it: waiting on the result with wait() discards the exception, so an unreachable '
         'endpoint looks open, requests get transport errors instead of fail-fast, and the retry delay never grows')
  n = 0
  for f in prog.all_funcs:
    if f.module.rel.startswith(('scales/kafka', 'scales/http', 'scales/redis', 'scales/thrifthttp')):
      continue
    parents = {}
    for node in ast.walk(f.node):
      for ch in ast.iter_child_nodes(node):
        parents[id(ch)] = node
    for c in walk_no_nested(f.node):
      if isinstance(c, ast.Call) and call_attr(c) in ('Open', 'DispatcherOpen') and not c.args and isinstance(c.func, ast.Attribute):
        n += 1
        how = consumption(prog, f, c, parents)
        ok = how not in ('wait', 'discarded', 'local-unused')
        if f.cls is not None and f.cls.name == 'SingletonPoolSink':
          if not ok:
            ctx.info('C09.R6 (outside the Thrift/ThriftMux stacks): %s consumes %s by %s' % (f.qualname, U(c), how))
          continue
        if f.qualname == 'Scales.ClientBuilder.Build':
          ctx.info('C09.R6: Build() waits on the open result with the documented open timeout semantics (exempt): %s' % how)
          continue
        ctx.ob('C09.R6', f, 'result of %s is observed' % U(c), ok, 'the result of %s is consumed by: %s' % (U(c), how), why)
  ctx.floor('C09.R6', 'Open() result sites', n, 7)


def balancer_close(ctx):
  prog = ctx.prog
  f = prog.func('scales/loadbalancer/heap.py', 'HeapBalancerSink.Close')
  why = ('closing the balancer must close every member channel: a ResurrectorSink reports Closed exactly while its endpoint is down and its retry greenlet is alive, '
         'and only its Close() kills that greenlet -- skipping "closed" members leaves resurrectors reconnecting for ever')
  loops = [n for n in ast.walk(f.node) if isinstance(n, (ast.ListComp, ast.GeneratorExp, ast.For))]
  ok = False
  what = 'no loop over the members in Close'
  for lp in loops:
    it = lp.generators[0].iter if not isinstance(lp, ast.For) else lp.iter
    tgt = lp.generators[0].target if not isinstance(lp, ast.For) else lp.target
    ifs = lp.generators[0].ifs if not isinstance(lp, ast.For) else [x.test for x in lp.body if isinstance(x, ast.If)]
    body_calls = [c for c in ast.walk(lp) if isinstance(c, ast.Call) and U(c.func) == '%s.channel.Close' % U(tgt)]
    src = U(it).replace(' ', '')
    if src in ('self._heap', 'self._heap[1:]', 'self._heap[1:self._size+1]', 'self._heap[:]', 'list(self._heap)', 'tuple(self._heap)', 'list(self._heap[1:])') and body_calls:
      ok = not ifs
      what = 'member channels are closed under the filter %s' % [U(i) for i in ifs] if ifs else ''
      # closing a channel fails its in-flight requests synchronously; their release re-orders the heap (Swap) under a live iteration:
      # one node is visited twice and another never
      snap = src != 'self._heap'
      ctx.ob('C09.R4', f, 'the members are closed from a snapshot of the heap array', snap,
             'Close iterates the live self._heap while channel.Close() re-enters the balancer (release of failed in-flight requests swaps heap slots): a member is skipped and keeps its connection and resurrector', why)
  ctx.ob('C09.R4', f, 'closing the balancer closes every member channel, whatever state it reports', ok, what, why)


def channel_closers(ctx):
  """A member's channel -- the resurrector that retries its endpoint -- is closed only when the member leaves (or the balancer itself is closed): a failed open or a
  fault is the resurrector's business."""
  prog = ctx.prog
  why = ('ResurrectorSink.Close() unsubscribes its fault handler and kills the retry greenlet: a balancer that closes the channel of a member whose open failed (and stays a '
         'member) switches the retries off -- the endpoint is never reconnected to, however long it has been reachable again')
  who = set()
  for rel in ('scales/loadbalancer/heap.py', 'scales/loadbalancer/aperture.py', 'scales/loadbalancer/base.py'):
    for f in prog.all_funcs:
      if f.module.rel != rel:
        continue
      for c in walk_no_nested(f.node):
        if isinstance(c, ast.Call) and isinstance(c.func, ast.Attribute) and c.func.attr == 'Close' and U(c.func.value).endswith('channel'):
          who.add(f.qualname)
  allowed = {'HeapBalancerSink.Close', 'HeapBalancerSink._RemoveSink', 'HeapBalancerSink.__Put'}
  ctx.ob('C09.R4', prog.func('scales/loadbalancer/heap.py', 'HeapBalancerSink._RemoveSink'), 'member channels are closed only on removal, last release of a removed member, or balancer close',
         who <= allowed and len(who) >= 2, 'member channels are closed from %s' % sorted(who - allowed or who), why)


def socket_close(ctx):
  """ScalesSocket.close() gets to handle.close() without anything that can raise in front of it."""
  prog = ctx.prog
  f = prog.func('scales/scales_socket.py', 'ScalesSocket.close')
  why = ('close() runs inside the transports\' shutdown (state already Closed, fault signal not yet raised, in-flight requests not yet failed): an exception from a call made before '
         'handle.close() -- shutdown() on a connection the peer reset raises ENOTCONN -- aborts the shutdown half-way: nobody is told, the resurrector never retries')
  for ev, ex in enum_paths(ctx, f):
    calls_ = [e.node for e in ev if e.kind == 'call']
    idx = [i for i, c in enumerate(calls_) if isinstance(c.func, ast.Attribute) and c.func.attr == 'close' and 'handle' in U(c.func.value)]
    if not idx:
      continue
    tries = [t for t in ast.walk(f.node) if isinstance(t, ast.Try) and any(h.type is None or 'Exception' in U(h.type) or 'error' in U(h.type) for h in t.handlers)]
    before = [c for c in calls_[:idx[0]] if not any(any(x is c for x in ast.walk(b)) for t in tries for b in t.body)]
    ctx.ob('C09.R4', f, 'nothing that can raise runs before handle.close()', not before, 'calls before handle.close(): %s' % [U(c)[:50] for c in before], why)
