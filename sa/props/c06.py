"""C06 Aperture keeps a partitioned, bounded, load-tracking active subset."""
import ast

from ..model import AnalysisError, dotted, unparse
from ..util import callback_bodies, FACTS, has_fact, resolved_text, sym_env, sym_resolve, POS, U, enum_paths, walk_no_nested, is_yield_call
from ..paths import call_attr, call_name
from .c03 import facts
from . import c04, c05

A = 'scales/loadbalancer/aperture.py'
V = 'scales/varz.py'


def check(ctx):
  prog = ctx.prog
  ctx.rule('C06.R1', 'partition: joiners go to exactly one of heap/idle, leavers leave both, expansion/contraction move one endpoint as a pair of operations (shared with C05.R3); pending endpoints are heap members and are always discarded again')
  ctx.rule('C06.R2', 'bounds: expansion only under load >= max_load, idle non-empty and size < max_size (strict); contraction only under load <= min_load and size > min_size (strict); _ContractAperture removes at most one node, only with more than min_size healthy members and (no pending or force), never a pending one, preferring a closed one')
  ctx.rule('C06.R3', 'load signal: load = EMA(outstanding total) / active size with size 0 treated as max_load; the total moves by +-1 per get/put (shared C04.R3); a member marked down triggers expansion')
  ctx.decline('convergence ("settles inside the band"), EMA numerics and jitter timing are not decided')
  a = prog.func(A, 'ApertureBalancerSink._AddSink')
  # partition rules shared with C05
  c05.r3(ctx)
  ctx.rule('C05.R2', 'shared with C05: an endpoint that is already a member is never handed to _AddSink again (the aperture would hold it in the heap and in the idle set at once)')
  c05.r2(ctx)
  from . import c03 as _c03
  ctx.rule('C03.R5', 'shared with C03: the sifts respect the bound they are given (removal parks the outgoing node behind the bound; a sift that looks past it swaps the parked node back and a different member is evicted: it is then neither active nor idle)')
  _c03.r5(ctx)
  r1_pending(ctx)
  r2(ctx)
  r3(ctx)
  c04.r3(ctx)


def r1_pending(ctx):
  prog = ctx.prog
  why = ('an endpoint that is being opened is marked pending so that contraction does not evict it; the mark must be removed when the open completes '
         '(or the jitter round ends), otherwise contraction is blocked for good')
  t = prog.func(A, 'ApertureBalancerSink._TryExpandAperture')
  lp = t.params[1] if len(t.params) > 1 else 'leave_pending'
  for ev, ex in enum_paths(ctx, t):
    fs = facts(ev)
    if ('added_node', True) in fs:
      cw = [e.node for e in ev if e.kind == 'call' and call_attr(e.node) == 'ContinueWith']
      keep = ('not' + lp, False) in fs or (lp, True) in fs
      if keep:
        ctx.ob('C06.R1', t, 'leave_pending: the caller takes over the pending mark', not cw, 'continuation registered although the caller keeps the mark', why, nontrivial=False)
      else:
        ok = len(cw) == 1 and bool(cw[0].args) and any('self._pending_endpoints.discard(' in U(n_) for n_, _b in callback_bodies(prog, t, cw[0].args[0]))
        ctx.ob('C06.R1', t, 'the pending mark is discarded when the new node finished opening', ok, 'continuation: %s' % [U(c) for c in cw], why)
      r = [e for e in ev if e.kind == 'ret']
      ctx.ob('C06.R1', t, 'expansion returns (open result, endpoint)', bool(r) and isinstance(r[-1].node.value, ast.Tuple) and len(r[-1].node.value.elts) == 2 and U(r[-1].node.value.elts[0]) == 'added_node',
             'returns %s' % (U(r[-1].node.value) if r else None), 'callers wait on the open result', nontrivial=False)
  j = prog.func(A, 'ApertureBalancerSink._Jitter')

  def mr(call, armed):
    if call_attr(call) == 'wait' or U(call.func) in ('self._ContractAperture', 'self._TryExpandAperture'):
      return ['Exception']
    return []
  n = 0
  for ev, ex in enum_paths(ctx, j, mr):
    fs = facts(ev)
    sch = [e for e in ev if e.kind == 'call' and U(e.node.func) == 'self._ScheduleNextJitter']
    ctx.ob('C06.R1', j, 'the next jitter round is always scheduled', len(sch) == 1, 'schedules on a jitter path: %d' % len(sch), 'jitter keeps cycling members through the aperture')
    if ('endpoint', True) in fs:
      n += 1
      dis = [e for e in ev if e.kind == 'call' and U(e.node.func) == 'self._pending_endpoints.discard' and [U(x) for x in e.node.args] == ['endpoint']]
      ctx.ob('C06.R1', j, 'a jitter round always removes its pending mark (finally)', len(dis) == 1, 'discards on a jitter path with an expansion: %d' % len(dis), why)
      con = [e.node for e in ev if e.kind == 'call' and U(e.node.func) == 'self._ContractAperture' and not e.info]
      if con:
        okc = ('notar.exception', True) in fs or ('ar.exception', False) in fs
        ctx.ob('C06.R1', j, 'jitter contracts only after the new node opened successfully', okc and [U(x) for x in con[0].args] == ['True'], 'contraction under %s' % fs,
               'a failed open followed by a contraction shrinks the aperture')
    else:
      con = [e for e in ev if e.kind == 'call' and U(e.node.func) == 'self._ContractAperture']
      ctx.ob('C06.R1', j, 'no expansion: no forced contraction', not con, 'forced contraction without a preceding expansion', 'jitter must net to zero')
  ctx.floor('C06.R1', 'jitter paths with an expansion', n, 2)
  ex = [c for c in walk_no_nested(j.node) if isinstance(c, ast.Call) and U(c.func) == 'self._TryExpandAperture']
  ctx.ob('C06.R1', j, 'jitter expands with leave_pending=True', len(ex) == 1 and [U(x) for x in ex[0].args] == ['True'], 'jitter expansion call: %s' % [U(e) for e in ex], why, nontrivial=False)


def r2_floor(ctx):
  """An aperture whose lower bound is 0 starts empty; an empty heap answers NoMembersError without calling _OnGet,
  so the load signal never moves and the aperture can never grow although idle members exist."""
  prog = ctx.prog
  init = prog.func(A, 'ApertureBalancerSink.__init__')
  why = ('with min_size 0 every member is held idle, every request fails with NoMembersError before the load signal is touched, '
         'and the "empty aperture counts as max_load" growth branch is unreachable: the active set never grows although idle members remain')
  asg = [st for st in walk_no_nested(init.node) if isinstance(st, ast.Assign) and U(st.targets[0]) == 'self._min_size']
  ok = False
  what = '_min_size assigned %d times' % len(asg)
  if len(asg) == 1:
    v = asg[0].value
    what = '_min_size = %s' % U(v)
    if isinstance(v, ast.Call) and isinstance(v.func, ast.Name) and v.func.id == 'max' and len(v.args) == 2:
      consts = [a.value for a in v.args if isinstance(a, ast.Constant) and isinstance(a.value, int)]
      ok = bool(consts) and max(consts) >= 1
    if not ok:
      # or: configurations below 1 are rejected before the assignment
      src = U(v)
      for ev, ex in enum_paths(ctx, init):
        if ex[0] == 'raise':
          fs = FACTS(ev)
          if any(c.replace(' ', '') in ('%s<1' % src, '%s<=0' % src, 'not%s' % src) and t for c, t in fs):
            ok = True
  ctx.ob('C06.R2', init, 'the aperture never has a lower bound of zero members (min_size clamped to >= 1 or rejected)', ok, what, why)


def _not_forced(call):
  """_ContractAperture() / _ContractAperture(False) / _ContractAperture(force=False): the default written out is the default."""
  vals = list(call.args) + [k.value for k in call.keywords if k.arg == 'force']
  if any(k.arg not in ('force',) for k in call.keywords) or len(vals) > 1:
    return False
  return all(isinstance(v, ast.Constant) and v.value is False for v in vals)


def r2(ctx):
  r2_floor(ctx)
  prog = ctx.prog
  adj = prog.func(A, 'ApertureBalancerSink._AdjustAperture')
  why = ('load-driven growth never takes the active set beyond max_size and contraction never leaves fewer than min(min_size, members) active: the '
         'size comparisons must be strict and every guard must dominate the resize')
  n_e = n_c = 0
  LOAD = 'self._ema.Update(self._time.Sample(),self._total)/self._size'
  for ev, ex in enum_paths(ctx, adj):
    exp = [i for i, e in enumerate(ev) if e.kind == 'call' and U(e.node.func) == 'self._TryExpandAperture']
    con = [i for i, e in enumerate(ev) if e.kind == 'call' and U(e.node.func) == 'self._ContractAperture']

    def H(i, text, truth=True):
      return has_fact(ev, i, text, truth)
    if exp:
      n_e += 1
      i = exp[0]
      over = H(i, 'aperture_load >= self._max_load') or H(i, LOAD + ' >= self._max_load') or H(i, 'self._max_load >= self._max_load')
      ok = over and H(i, 'self._idle_endpoints') and (H(i, 'aperture_size < self._max_size') or H(i, 'self._size < self._max_size')) and len(exp) == 1 and not con
      ctx.ob('C06.R2', adj, 'expansion dominated by load >= max_load, idle members exist, size < max_size', ok, 'expansion under facts %s' % sorted(set(FACTS(ev[:i])))[:12], why)
    elif con:
      n_c += 1
      i = con[0]
      under = H(i, 'aperture_load <= self._min_load') or H(i, LOAD + ' <= self._min_load') or H(i, 'self._max_load <= self._min_load')
      ok = under and (H(i, 'aperture_size > self._min_size') or H(i, 'self._size > self._min_size')) and len(con) == 1 \
        and _not_forced(ev[i].node)
      ctx.ob('C06.R2', adj, 'contraction dominated by load <= min_load and size > min_size, never forced', ok, 'contraction under facts %s' % sorted(set(FACTS(ev[:i])))[:12], why)
  ctx.floor('C06.R2', 'expansion paths', n_e, 1)
  ctx.floor('C06.R2', 'contraction paths', n_c, 1)
  c = prog.func(A, 'ApertureBalancerSink._ContractAperture')
  force = c.params[1] if len(c.params) > 1 else 'force'
  whyc = ('contraction (also the forced one of a jitter round) may remove a member only while more than min_size healthy members are active, and never '
          'one that is still being opened')
  import re
  HPAT = [re.compile(r"len\(\[(\w+)for\1inself\._heap\[1:\]if\1\.channel\.is_open\]\)"),
          re.compile(r"sum\(\(?1for(\w+)inself\._heap\[1:\]if\1\.channel\.is_open\)?\)"),
          re.compile(r"sum\(\[1for(\w+)inself\._heap\[1:\]if\1\.channel\.is_open\]\)")]

  def canon(t):
    t = t.replace(' ', '')
    for p_ in HPAT:
      t = p_.sub('#H', t)
    return t

  def closure(ev, upto):
    """branch facts before `upto`, local aliases resolved, healthy-member count spelled #H"""
    from ..util import equiv_facts
    out = set()
    for idx, e in enumerate(ev[:upto]):
      if e.kind != 'cond':
        continue
      node = sym_resolve(e.node, sym_env(ev, idx))
      for c_, t_ in equiv_facts(node, bool(e.info)):
        out.add((canon(c_), t_))
      for c_, t_ in FACTS([e]):
        out.add((canon(c_), t_))
    return out
  n_rm = 0
  for ev, ex in enum_paths(ctx, c):
    rm = [(i, e.node) for i, e in enumerate(ev) if e.kind == 'call' and U(e.node.func).replace(' ', '') == 'super(ApertureBalancerSink,self)._RemoveSink']
    if not rm:
      continue
    n_rm += 1
    i = rm[0][0]
    before = closure(ev, i)
    healthy = ('#H>self._min_size', True) in before or ('self._min_size<#H', True) in before
    pend_ok = ('self._pending_endpoints', False) in before or (force, True) in before or ('not' + force, False) in before
    ctx.ob('C06.R2', c, 'a member is removed only with more than min_size healthy members', healthy and len(rm) == 1,
           'removal without the fact "open active members > min_size" (facts: %s)' % sorted(t for t, v in before if '#H' in t or '_min_size' in t), whyc)
    ctx.ob('C06.R2', c, 'a member is removed only when nothing is pending, unless forced', pend_ok, 'removal under facts %s' % sorted(before)[:12], whyc)
    # the victim is not one that is still being opened: a path fact, or the filter of the expression that picked it
    varg = rm[0][1].args[0]
    epn = U(varg)
    np = any(c_.endswith('notinself._pending_endpoints') and t for c_, t in before) or any(c_.endswith('inself._pending_endpoints') and 'notin' not in c_ and not t for c_, t in before)
    if not np:
      src = sym_resolve(varg, sym_env(ev, i))
      gens = [g for n in ast.walk(src) if isinstance(n, (ast.GeneratorExp, ast.ListComp)) for g in n.generators]
      np = bool(gens) and all(any('notinself._pending_endpoints' in U(f_).replace(' ', '') for f_ in g.ifs) for g in gens)
    ctx.ob('C06.R2', c, 'the evicted member is not a pending one', np, 'victim %s chosen without a not-pending filter' % epn, whyc)
  ctx.floor('C06.R2', 'removal paths of _ContractAperture', n_rm, 1)
  # expansion is unconditional once it is asked for: the only reason not to add a member is that no idle member exists
  te = prog.func(A, 'ApertureBalancerSink._TryExpandAperture')
  n_noadd = 0
  for ev, ex in enum_paths(ctx, te):
    if ex[0] != 'ret':
      continue
    adds = [e for e in ev if e.kind == 'call' and U(e.node.func).replace(' ', '') == 'super(ApertureBalancerSink,self)._AddSink']
    if adds:
      continue
    n_noadd += 1
    fs = closure(ev, len(ev))
    empty = any(t_ in ('list(self._idle_endpoints)', 'self._idle_endpoints', 'len(self._idle_endpoints)>0', 'len(list(self._idle_endpoints))>0') and not v_ for t_, v_ in fs) or \
      any(t_ in ('notlist(self._idle_endpoints)', 'notself._idle_endpoints', 'len(self._idle_endpoints)==0') and v_ for t_, v_ in fs)
    ctx.ob('C06.R2', te, 'an expansion that was asked for is skipped only when no idle member exists', empty,
           '_TryExpandAperture returns without adding a member on a path that has not found the idle set empty (facts %s)' % sorted(t_ for t_, v_ in fs)[:8],
           'the active set grows while load >= max_load and idle members remain; down-member replacement and jitter rely on the same call')
  ctx.floor('C06.R2', 'no-op paths of _TryExpandAperture', n_noadd, 1)
  a = prog.func(A, 'ApertureBalancerSink._AddSink')
  for ev, ex in enum_paths(ctx, a):
    fs = closure(ev, len(ev))
    sup = [e for e in ev if e.kind == 'call' and U(e.node.func).replace(' ', '') == 'super(ApertureBalancerSink,self)._AddSink']
    low = ('#H<self._min_size', True) in fs or ('self._min_size>#H', True) in fs
    ctx.ob('C06.R2', a, 'a joiner becomes active iff fewer than min_size healthy members are active', bool(sup) == low,
           'activation=%s under facts %s' % (bool(sup), sorted(t for t, v in fs if '#H' in t or '_min_size' in t)),
           'contraction never leaves fewer than min(min_size, members) active: joins must refill the aperture up to min_size')
  init = prog.func(A, 'ApertureBalancerSink.__init__')
  props = init.params[2]
  bad = []
  for nm in ('min_size', 'max_size', 'min_load', 'max_load'):
    asg = [st for st in walk_no_nested(init.node) if isinstance(st, ast.Assign) and U(st.targets[0]) == 'self._' + nm]
    srcs = [x for st in asg for x in ast.walk(st.value) if isinstance(x, ast.Attribute) and U(x.value) == props]
    if len(asg) != 1 or [x.attr for x in srcs] != [nm]:
      bad.append(nm)
  ctx.ob('C06.R2', init, 'bounds come from the sink properties', not bad, 'bounds not taken from the matching property: %s' % bad, why, nontrivial=False)


def r3(ctx):
  prog = ctx.prog
  adj = prog.func(A, 'ApertureBalancerSink._AdjustAperture')
  why = ('the aperture grows/shrinks on the smoothed number of outstanding requests per active member: the signal must be EMA(total) divided by the '
         'current active size')
  seen = {}
  for ev, ex in enum_paths(ctx, adj):
    # the value compared against the load band, resolved through the assignments on the path
    cmpi = [(i, resolved_text(ev, i, e.node)) for i, e in enumerate(ev) if e.kind == 'cond']
    cmpi = [(i, r) for i, r in cmpi if '_max_load' in r or '_min_load' in r]
    if not cmpi:
      continue
    i, res = cmpi[0]
    zero = has_fact(ev, i, 'aperture_size == 0') or has_fact(ev, i, 'self._size == 0')
    if zero:
      seen['zero'] = seen.get('zero', True) and res.startswith(('self._max_load>=', 'self._max_load<='))
    else:
      good = ('self._ema.Update(self._time.Sample(),self._total)/self._size' in res or 'self._ema.Update(self._time.Sample(),self._total)/float(self._size)' in res)
      seen['load'] = seen.get('load', True) and good
      if not good:
        seen['load_text'] = res
  ctx.ob('C06.R3', adj, 'load = EMA(monotonic time, outstanding total) / active size; an empty aperture counts as max_load', seen.get('zero') is True and seen.get('load') is True,
         'load signal: %s' % seen, why)
  # Ema.Update(ts, sample) weights `sample` by the time elapsed since the previous update.  The number of outstanding
  # requests is a step function: the level that held during that interval is the total *before* this adjustment.
  n_upd = 0
  for ev, ex in enum_paths(ctx, adj):
    upd = [i for i, e in enumerate(ev) if e.kind == 'call' and U(e.node.func) == 'self._ema.Update']
    wr = [i for i, e in enumerate(ev) if e.kind == 'stmt' and isinstance(e.node, (ast.AugAssign, ast.Assign))
          and U(e.node.target if isinstance(e.node, ast.AugAssign) else e.node.targets[0]) == 'self._total']
    if not upd:
      continue
    n_upd += 1
    smp = U(ev[upd[0]].node.args[1]) if len(ev[upd[0]].node.args) == 2 else None
    ok = len(upd) == 1 and len(wr) == 1 and smp == 'self._total' and upd[0] < wr[0]
    ctx.ob('C06.R3', adj, 'the EMA is fed the level that held during the elapsed interval (update before the total changes)', ok,
           'EMA sample %s, update at event %s, total written at %s' % (smp, upd, wr),
           'feeding the new total gives the level after the event the weight of the time before it: N closed-loop callers read as N-1 '
           '(no growth at load 2.0 >= max_load 1.5), sparse short requests read as 1 (no contraction)')
  ctx.ob('C06.R3', adj, 'every adjustment updates the EMA', n_upd >= 1, 'no path updates the EMA', why)
  nd = prog.func(A, 'ApertureBalancerSink._OnNodeDown')
  seen = {}
  for ev, ex in enum_paths(ctx, nd):
    fs = facts(ev)
    exp = [e for e in ev if e.kind == 'call' and U(e.node.func) == 'self._TryExpandAperture']
    idle = any('ChannelState.Idle' in c and ((c.replace('(', '').find('!=') > 0 and not t) or ('==' in c and t)) for c, t in POS(fs))
    if idle:
      seen['idle'] = not exp
    else:
      seen['down'] = len(exp) == 1
  ctx.ob('C06.R3', nd, 'a member marked down triggers an expansion', seen.get('down', False), 'node-down handling: %s' % seen, 'a down member is replaced from the idle set so that the active, healthy set keeps its size')
  init = prog.func(A, 'ApertureBalancerSink.__init__')
  t = U(init.node).replace(' ', '')
  ctx.ob('C06.R3', init, 'EMA over a 5 s window on a monotonic clock, total starts at 0', 'self._ema=Ema(5)' in t and 'self._time=MonoClock()' in t and 'self._total=0' in t, '__init__ changed', why, nontrivial=False)
  em = prog.func(V, 'Ema.Update')
  t = U(em.node).replace(' ', '')
  import re as _re, copy as _copy
  from ..normalize import lower_new_ifexps
  emn = _copy.deepcopy(em.node)
  lower_new_ifexps(emn, set(), {})
  ts_, smp_ = em.params[1], em.params[2]
  ok = True
  n_upd = 0
  for ev, ex in enum_paths(ctx, em, body=emn.body):
    wv = [(i, e.node) for i, e in enumerate(ev) if e.kind == 'stmt' and isinstance(e.node, ast.Assign) and U(e.node.targets[0]) == 'self.value']
    if not wv:
      continue
    i, st = wv[-1]
    rt = resolved_text(ev, i, st.value)
    if rt in ('float(%s)' % smp_, smp_):
      continue                      # first sample
    n_upd += 1
    m = _re.match(r'^%s\*\(1-(.+)\)\+self\.value\*(.+)$' % _re.escape(smp_), rt)
    good = False
    if m:
      w1, w2 = m.group(1), m.group(2)
      if w2.startswith('(') and w2.endswith(')'):
        w2 = w2[1:-1]
      if w1.startswith('(') and w1.endswith(')'):
        w1 = w1[1:-1]
      dt = '%s-self._time' % ts_
      good = w1 == w2 and w1 in ('0', 'math.exp(-float(%s)/self._window)' % dt, 'math.exp(-(%s)/self._window)' % dt, 'math.exp(-float(%s)/float(self._window))' % dt)
    ok = ok and good
  ctx.ob('C06.R3', em, 'EMA update is a convex combination weighted by exp(-dt/window)', ok and n_upd >= 1, 'Ema.Update changed', 'the smoothed value stays between old value and sample', nontrivial=False)
  mc = prog.func(V, 'MonoClock.Sample')
  t = U(mc.node).replace(' ', '')
  ctx.ob('C06.R3', mc, 'MonoClock never goes backwards', 'ifnow-self._last>0:self._last=now' in t.replace('\n', '') and t.endswith('returnself._last'), 'MonoClock.Sample changed', 'a negative time delta would blow the EMA up', nontrivial=False)
