"""C18 Metrics are neither lost, duplicated nor split across equal sources."""
import ast

from ..model import AnalysisError, dotted, unparse
from ..util import resolved_text, POS, FACTS, FACTS_I, U, enum_paths, walk_no_nested
from ..paths import call_attr, call_name

V = 'scales/varz.py'


def self_fields(prog, cls, fnode, depth=0, seen=None):
  """Set of instance attributes a method body reads through self, following self.m()
  helper calls and property getters (depth-limited)."""
  seen = seen or set()
  out = set()
  for n in ast.walk(fnode):
    if isinstance(n, ast.Attribute) and isinstance(n.value, ast.Name) and n.value.id == 'self':
      name = n.attr
      m = prog.lookup_method(cls, name)
      if m is not None and depth < 4 and m.node is not fnode and name not in seen:
        out |= self_fields(prog, cls, m.node, depth + 1, seen | {name})
      elif m is None and not (name.startswith('__') and name.endswith('__')):
        out.add(name)
  return out


def _source_fields(prog, call):
  """field -> argument text of a Source(...) call, positional arguments mapped through Source.__init__'s parameter list."""
  ps = prog.func(V, 'Source.__init__').params[1:]
  kw = dict((k.arg, U(k.value)) for k in call.keywords if k.arg)
  for p_, a in zip(ps, call.args):
    if isinstance(a, ast.Starred):
      return {}
    kw[p_] = U(a)
  return kw


def check(ctx):
  prog = ctx.prog
  ctx.rule('C18.R1', 'every class with a field-based __hash__ defines __eq__ over the same fields (hash/eq agreement of dict keys)')
  ctx.rule('C18.R2', 'metric updates are keyed VARZ_DATA[metric][verified source]: += for counters/rates, = for gauges, reservoir per source; metric kinds are wired to the matching receiver; the dispatcher per-reply Source copies method/service/endpoint')
  ctx.rule('C18.R3', 'aggregation accumulates each source once; percentiles are interpolated from a sorted sequence with an ascending percentile list, read from the live reservoir')
  ctx.decline('numeric results (sums, EMA, percentile values) are not decided')
  r1(ctx)
  r2(ctx)
  r3(ctx)
  series_lifetime(ctx)


def series_lifetime(ctx):
  """Recorded series live as long as the process: nothing removes a metric or a source from VARZ_DATA / VARZ_METRICS, and metrics are registered when their
  Varz class is defined (so that what is recorded through class-level metrics is aggregated)."""
  prog = ctx.prog
  why = ('the aggregate of a metric is the sum over everything recorded for it: a series dropped when a connection closes (or a registry entry that only appears once an '
         'object is instantiated) makes the aggregate forget increments that were recorded')
  bad = []
  for f in prog.all_funcs:
    for nd in ast.walk(f.node):
      t = None
      if isinstance(nd, ast.Call) and isinstance(nd.func, ast.Attribute) and nd.func.attr in ('pop', 'popitem', 'clear', '__delitem__') and \
         ('VARZ_DATA' in U(nd.func.value) or 'VARZ_METRICS' in U(nd.func.value)):
        t = U(nd)
      elif isinstance(nd, ast.Delete) and any('VARZ_DATA' in U(x) or 'VARZ_METRICS' in U(x) for x in nd.targets):
        t = U(nd)
      elif isinstance(nd, (ast.For, ast.comprehension)) and ('VARZ_DATA' in U(nd.iter)):
        # code that walks every series may only read
        body = nd.body if isinstance(nd, ast.For) else []
        for x in [y for b_ in body for y in ast.walk(b_)]:
          if isinstance(x, ast.Call) and isinstance(x.func, ast.Attribute) and x.func.attr in ('pop', 'clear', 'popitem'):
            t = U(x)
          elif isinstance(x, ast.Delete):
            t = U(x)
      if t:
        bad.append('%s: %s' % (f.qualname, t[:70]))
  ctx.ob('C18.R2', prog.cls(V, 'VarzReceiver'), 'no series or registry entry is ever removed', not bad, 'removed by %s' % bad, why)
  meta = prog.cls(V, 'VarzMeta')
  reg = [(m.name, c) for m in meta.methods.values() for c in ast.walk(m.node) if isinstance(c, ast.Call) and call_attr(c) == 'RegisterMetric']
  ctx.ob('C18.R2', meta, 'metrics are registered when the Varz class is defined', bool(reg) and all(nm in ('__new__', '__init__') for nm, _ in reg),
         'RegisterMetric is called from %s' % sorted(set(nm for nm, _ in reg)),
         why + '; MessageDispatcher.Varz and the other class-level Varz holders are never instantiated: registration at instantiation leaves their metrics out of VARZ_METRICS, '
         'and Aggregate skips every metric it has no type for')


def r1(ctx):
  prog = ctx.prog
  why = ('dict lookup uses __hash__ then __eq__: without an __eq__ over the same fields two equal sources are different keys, so every '
         'call creates a new series (unbounded) and aggregates split')
  n = 0
  for c in prog.all_classes:
    h = c.methods.get('__hash__')
    if h is None:
      continue
    n += 1
    hf = self_fields(prog, c, h.node)
    e = prog.lookup_method(c, '__eq__')
    if e is None:
      ctx.ob('C18.R1', c, '%s: __hash__ without __eq__' % c.name, False,
             '%s defines __hash__ over %s but no __eq__ (identity equality)' % (c.name, sorted(hf)), why)
      continue
    ef = self_fields(prog, e.cls, e.node)
    # normalise private/public spelling (_host vs host via property)
    norm = lambda s: set(x.lstrip('_') for x in s)
    ok = bool(hf) and norm(hf) == norm(ef)
    ctx.ob('C18.R1', c, '%s: __hash__ and __eq__ use the same fields' % c.name, ok,
           '__hash__ uses %s, __eq__ uses %s' % (sorted(hf), sorted(ef)), why)
    # every field comparison pairs a field of self with the SAME field of the other object
    oparam = e.params[1] if len(e.params) > 1 else 'other'
    cross = []
    for cmp_ in [x for x in ast.walk(e.node) if isinstance(x, ast.Compare) and len(x.ops) == 1 and isinstance(x.ops[0], (ast.Eq, ast.NotEq))]:
      l, r_ = cmp_.left, cmp_.comparators[0]
      if isinstance(l, ast.Attribute) and isinstance(r_, ast.Attribute) and isinstance(l.value, ast.Name) and isinstance(r_.value, ast.Name) \
         and {l.value.id, r_.value.id} == {'self', oparam} and l.attr != r_.attr:
        cross.append(U(cmp_))
    ctx.ob('C18.R1', c, '%s: __eq__ compares each field with the same field of the other object' % c.name, not cross,
           '__eq__ compares different fields with each other: %s' % cross, why)
    # __eq__ must compare against the other object's same fields (not identity)
    txt = U(e.node)
    ctx.ob('C18.R1', c, '%s: __eq__ compares field values' % c.name, '==' in txt and ' is other' not in txt and 'id(' not in txt,
           '__eq__ does not compare field values', why, nontrivial=False)
  ctx.floor('C18.R1', 'classes with __hash__', n, 3)
  src = prog.cls(V, 'Source')
  h = src.methods.get('__hash__')
  if h is None:
    ctx.ob('C18.R1', src, 'Source is hashable by fields', False,
           'Source has no __hash__: with __eq__ defined it becomes unhashable, without it identity-hashed', why)
  else:
    hf = self_fields(prog, src, h.node)
    ctx.ob('C18.R1', src, 'Source identity = (method, service, endpoint, client_id)', hf == {'method', 'service', 'endpoint', 'client_id'},
           'Source hash fields are %s' % sorted(hf), 'two sources are the same series exactly when these four fields are equal')


def _subscript_chain(node):
  """VarzReceiver.VARZ_DATA[metric][src] -> (base text, [index exprs])"""
  idx = []
  while isinstance(node, ast.Subscript):
    idx.append(node.slice)
    node = node.value
  return U(node), list(reversed(idx))


def r2(ctx):
  prog = ctx.prog
  why = 'every update must land in the one series of its (metric, source); counters add, gauges overwrite'
  inc = prog.func(V, 'VarzReceiver.IncrementVarz')
  st = prog.func(V, 'VarzReceiver.SetVarz')
  rec = prog.func(V, 'VarzReceiver.RecordPercentileSample')

  def keyed(f, want_aug):
    src, metric = f.params[-3] if f.params[0] in ('cls',) else f.params[0], None
    params = [p for p in f.params if p not in ('cls', 'self')]
    src, metric, val = params[0], params[1], params[2]
    hits = []
    for n in walk_no_nested(f.node):
      tgt = None
      if want_aug and isinstance(n, ast.AugAssign) and isinstance(n.op, ast.Add):
        tgt, v = n.target, n.value
      elif not want_aug and isinstance(n, ast.Assign) and isinstance(n.targets[0], ast.Subscript):
        tgt, v = n.targets[0], n.value
      if tgt is None or not isinstance(tgt, ast.Subscript):
        continue
      base, idx = _subscript_chain(tgt)
      if base.endswith('VARZ_DATA') and len(idx) == 2:
        k = U(idx[1])
        ok_key = U(idx[0]) == metric and k in ('VerifySource(%s)' % src, src)
        if k == src:
          # must have been verified earlier in the function
          ok_key = ok_key and any(isinstance(a, ast.Assign) and U(a.targets[0]) == src and U(a.value) == 'VerifySource(%s)' % src for a in walk_no_nested(f.node))
        hits.append(ok_key and U(v) == val)
    return hits
  h = keyed(inc, True)
  ctx.ob('C18.R2', inc, 'IncrementVarz: VARZ_DATA[metric][source] += amount', h == [True], 'increment statement(s): %s' % h,
         why + '; "=" instead of "+=" loses all earlier increments')
  h = keyed(st, False)
  ctx.ob('C18.R2', st, 'SetVarz: VARZ_DATA[metric][source] = value', h == [True], 'set statement(s): %s' % h, why)
  for f in (inc, st):
    extra = [n for n in walk_no_nested(f.node) if isinstance(n, (ast.If, ast.Return, ast.For, ast.While, ast.Try))]
    ctx.ob('C18.R2', f, '%s is unconditional' % f.name, not extra, 'control flow added around the update',
           'a skipped update is a lost increment / a stale gauge')
  # reservoir: created on first use under the same key, then sampled
  params = [p for p in rec.params if p not in ('cls', 'self')]
  src, metric, val = params
  n_sample = 0
  for ev, ex in enum_paths(ctx, rec):
    n_sample += 1
    samples = [(i, e.node) for i, e in enumerate(ev) if e.kind == 'call' and call_attr(e.node) == 'Sample']
    ok = len(samples) == 1 and ex[0] == 'ret' and [U(a) for a in samples[0][1].args] == [val]
    ver = [e for e in ev if e.kind == 'call' and U(e.node.func) == 'VerifySource' and [U(a) for a in e.node.args] == [src]]
    if ok:
      i, c = samples[0]
      recv = resolved_text(ev, i, c.func.value)
      key_forms = ('cls.VARZ_DATA[%s][VerifySource(%s)]' % (metric, src), 'VarzReceiver.VARZ_DATA[%s][VerifySource(%s)]' % (metric, src),
                   'cls.VARZ_DATA[%s][%s]' % (metric, src))
      fresh = recv.startswith('_SampleSet(')
      if fresh:
        # the new reservoir must have been stored under the same (metric, source) key
        stores = [(j, e.node) for j, e in enumerate(ev[:i]) if e.kind == 'stmt' and isinstance(e.node, ast.Assign) and isinstance(e.node.targets[0], ast.Subscript)]
        ok = any(resolved_text(ev, j, st.targets[0]) in key_forms and resolved_text(ev, j, st.value).startswith('_SampleSet(') for j, st in stores)
      else:
        ok = recv in key_forms
      ok = ok and bool(ver)
    ctx.ob('C18.R2', rec, 'every sample goes, once, to the reservoir stored under (metric, verified source)', ok,
           'sample path: %d Sample calls, receiver %s' % (len(samples), resolved_text(ev, samples[0][0], samples[0][1].func.value) if samples else None), why)
  # wiring of metric kinds
  vm = prog.func(V, 'VarzMetric.__init__')
  wiring = {}
  for ev, ex in enum_paths(ctx, vm):
    fs = FACTS(ev)
    # the receiver selected on this path: the one VarzReceiver.* function assigned (to self._fn or a local)
    RECV = ('VarzReceiver.SetVarz', 'VarzReceiver.RecordPercentileSample', 'VarzReceiver.IncrementVarz')
    recv = sorted(set(U(e.node.value) for e in ev if e.kind == 'stmt' and isinstance(e.node, ast.Assign) and U(e.node.value) in RECV))
    if not recv:
      continue
    if len(recv) != 1:
      wiring.setdefault('?', set()).add(tuple(recv))
      continue
    if ('self.VARZ_TYPE==VarzType.Gauge', True) in fs:
      wiring.setdefault('Gauge', set()).add(recv[0])
    elif any((c.startswith('self.VARZ_TYPEin') or c in ('self.VARZ_TYPE==VarzType.AverageTimer', 'self.VARZ_TYPE==VarzType.AverageRate')) and t for c, t in POS(fs)):
      wiring.setdefault('Percentile', set()).add(recv[0])
    else:
      wiring.setdefault('Other', set()).add(recv[0])
  ok = wiring == {'Gauge': {'VarzReceiver.SetVarz'}, 'Percentile': {'VarzReceiver.RecordPercentileSample'}, 'Other': {'VarzReceiver.IncrementVarz'}}
  ctx.ob('C18.R2', vm, 'metric kinds wired to their receivers', ok, 'wiring is %s' % wiring,
         'a gauge wired to the increment receiver sums values; a counter wired to set loses increments')
  # subclasses that override the update path must still forward every update exactly once
  base = prog.cls(V, 'VarzMetric')
  for c in prog.subclasses(base, strict=True):
    m = c.methods.get('__call__')
    if m is None:
      continue
    for ev, ex in enum_paths(ctx, m):
      fw = [e for e in ev if e.kind == 'call' and (U(e.node.func).replace(' ', '') in ('self._fn',) or call_attr(e.node) == '__call__')]
      ctx.ob('C18.R2', m, '%s.__call__ forwards every update' % c.name, len(fw) == 1 and ex[0] == 'ret',
             'a path of the overriding __call__ forwards the update %d times' % len(fw),
             'state kept in a metric object (per holder) disagrees with series keyed by Source equality when equal sources have several holders; a skipped update is a stale gauge / lost increment')
  call = prog.func(V, 'VarzMetric.__call__')
  ok = len(call.node.body) <= 2 and U(call.node.body[-1]).replace(' ', '') == 'self._fn(self._metric,*args)'
  ctx.ob('C18.R2', call, 'VarzMetric.__call__ forwards every update', ok, '__call__ body changed', 'every call must reach the receiver')
  fs = prog.func(V, 'VarzMetric.ForSource')
  ctx.ob('C18.R2', fs, 'ForSource binds the given source', U(fs.node.body[-1]).replace(' ', '') == 'returntype(self)(self._metric,source)', 'ForSource changed',
         'a metric specialised for a source must record against that source', nontrivial=False)
  # a Varz holder binds each of ITS metrics to the source, every time it is built: the bound metric carries the full metric name of its class
  vb = prog.func(V, '_VarzBase.__init__')
  okb = True
  nb = 0
  for ev, ex in enum_paths(ctx, vb, unroll=1):
    sets = [(i, e.node) for i, e in enumerate(ev) if e.kind == 'call' and isinstance(e.node.func, ast.Name) and e.node.func.id == 'setattr' and len(e.node.args) == 3]
    for i, c in sets:
      nb += 1
      val = resolved_text(ev, i, c.args[2])
      if not (val.endswith('.ForSource(source)') or '.ForSource(' in val and val.endswith(')')) or '.get(' in val:
        okb = False
  cached = [st for st in ast.walk(prog.cls(V, '_VarzBase').node) if isinstance(st, ast.Assign) and isinstance(st.value, ast.Dict) and not st.value.keys
            and U(st.targets[0]) not in ('_VARZ',)]
  ctx.ob('C18.R2', vb, 'every Varz holder binds its own metrics to its source (no sharing of bound metrics between holders or classes)', okb and nb >= 1 and not cached,
         'bound metrics come from %s' % ([U(st.targets[0]) for st in cached] or 'something else than <metric>.ForSource(source)'),
         'the attribute name of a metric (size, errors, messages_sent) is shared by many Varz classes: a bound metric reused across holders records under another class\'s metric name')
  # dispatcher per-reply source
  d = prog.func('scales/dispatch.py', '_AsyncResponseSink.AsyncProcessResponse')
  ctor = [c for c in walk_no_nested(d.node) if isinstance(c, ast.Call) and U(c.func) == 'Source']
  ok = False
  if len(ctor) == 1:
    kw = _source_fields(prog, ctor[0])
    ok = kw.get('method') == 'source.method' and kw.get('service') == 'source.service' and kw.get('endpoint') == 'endpoint' and set(kw) <= {'method', 'service', 'endpoint'}
  ctx.ob('C18.R2', d, 'per-reply Source copies method, service and the endpoint string', ok, 'per-reply Source is %s' % (U(ctor[0]) if ctor else None),
         'replies from the same endpoint must land in the same series')
  # every reply of a tracked call (a call dispatched with a source) is recorded: latency once, and success or exception once -- whatever the endpoint is
  # (None for a call that never reached a balancer member)
  srcn = None
  for st in walk_no_nested(d.node):
    if isinstance(st, ast.Assign) and isinstance(st.targets[0], ast.Tuple) and U(st.value) == d.params[2] and len(st.targets[0].elts) == 4:
      srcn = U(st.targets[0].elts[0])
  n_tr = 0
  if srcn:
    for ev, ex in enum_paths(ctx, d):
      fs = FACTS(ev)
      if (srcn, True) not in fs:
        continue
      # a freshly constructed Source is truthy (the class defines neither __bool__ nor __len__, checked below): paths that test it false are infeasible
      built = set(U(e.node.targets[0]) for e in ev if e.kind == 'stmt' and isinstance(e.node, ast.Assign) and isinstance(e.node.value, ast.Call) and U(e.node.value.func) == 'Source')
      none_ = set(U(e.node.targets[0]) for e in ev if e.kind == 'stmt' and isinstance(e.node, ast.Assign) and isinstance(e.node.value, ast.Constant) and e.node.value.value is None)
      if any((b_, False) in fs for b_ in built - none_):
        continue
      n_tr += 1
      cnt = lambda nm: len([e for e in ev if e.kind == 'call' and call_attr(e.node) == nm])
      is_ret = ('isinstance(%s,MethodReturnMessage)' % d.params[4], True) in fs
      err = ('%s.error' % d.params[4], True) in fs
      want = (1, 1 if is_ret and err else 0, 1 if is_ret and not err else 0)
      got = (cnt('request_latency'), cnt('exception_messages'), cnt('success_messages'))
      ctx.ob('C18.R2', d, 'a reply to a tracked call is recorded: latency once, success or exception once', got == want,
             'a path with a truthy source records (latency, exception, success) = %s, expected %s' % (got, want),
             'dispatch_messages is counted for every call with a source; the reply counters of the same service must add up to it (a reply whose endpoint is still None -- no balancer member reached -- is a reply too)')
  ctx.floor('C18.R2', 'reply paths of tracked calls', n_tr, 3)
  scls = prog.cls(V, 'Source')
  ctx.ob('C18.R2', '%s:%d' % (V, scls.node.lineno), 'a Source object is always truthy', not ({'__bool__', '__len__', '__nonzero__'} & set(scls.methods)), 'Source defines a truth value',
         'the reply counters are guarded by `if host_source:`', nontrivial=False)
  # the per-call source of the dispatcher names THIS dispatcher's service: built per call, or cached per instance -- a table shared by all
  # dispatchers (class attribute) keyed by the method alone records one service's calls under another's
  dm = prog.func('scales/dispatch.py', 'MessageDispatcher._DispatchMethod')
  dcls = dm.cls
  inst_attrs = set(U(t) for st in ast.walk(dcls.methods['__init__'].node) if isinstance(st, ast.Assign) for t in st.targets if U(t).startswith('self.')) if '__init__' in dcls.methods else set()
  sdm = [c for c in walk_no_nested(dm.node) if isinstance(c, ast.Call) and call_attr(c) == 'StaticDispatchMessage']
  okd = len(sdm) == 1
  whatd = 'StaticDispatchMessage call not found'
  if okd:
    from ..util import sym_env, sym_resolve
    bad = []
    n_src = 0
    for ev, ex in enum_paths(ctx, dm):
      for i, e in enumerate(ev):
        if e.kind == 'call' and e.node is sdm[0]:
          n_src += 1
          src = sym_resolve(sdm[0].args[1], sym_env(ev, i)) if len(sdm[0].args) > 1 else None
          if isinstance(src, ast.Call) and U(src.func) == 'Source':
            kw = _source_fields(prog, src)
            if not (kw.get('service') == 'self._name' and kw.get('method') == dm.params[1]):
              bad.append(U(src))
          else:
            cont = src.value if isinstance(src, ast.Subscript) else (src.func.value if isinstance(src, ast.Call) and isinstance(src.func, ast.Attribute) and src.func.attr in ('get', 'setdefault') else None)
            if cont is None or U(cont) not in inst_attrs:
              bad.append(U(src) if src is not None else None)
    okd = not bad and n_src >= 1
    whatd = 'the source handed to the dispatch is %s' % bad
  ctx.ob('C18.R2', dm, 'the per-call Source is Source(method, this dispatcher\'s service), built per call or cached per dispatcher instance', okd, whatd,
         'counters aggregated per service equal the increments recorded for THAT service')
  srci = prog.func(V, 'Source.__init__')
  ok = all(any(isinstance(s, ast.Assign) and U(s.targets[0]) == 'self.' + p and U(s.value) == p for s in srci.node.body) for p in ('method', 'service', 'endpoint', 'client_id'))
  ctx.ob('C18.R2', srci, 'Source stores its four fields as given', ok, 'Source.__init__ changed', 'identity fields must be the values supplied', nontrivial=False)


def r3(ctx):
  prog = ctx.prog
  f = prog.func(V, 'VarzAggregator.Aggregate')
  why = 'per-service totals are the sum over all sources of that service, each counted once'
  srcloops = [n for n in ast.walk(f.node) if isinstance(n, ast.For) and 'varz[metric]' in U(n.iter).replace(' ', '')]
  ok = len(srcloops) == 1
  ctx.ob('C18.R3', f, 'one pass over the sources of a metric', ok, 'source loop not found / duplicated', why)
  if ok:
    lp = srcloops[0]
    accs = [n for n in ast.walk(lp) if isinstance(n, ast.AugAssign) and U(n.target).endswith('.work')]
    ok = len(accs) == 1 and isinstance(accs[0].op, ast.Add) and U(accs[0].value) == 'data'
    ctx.ob('C18.R3', f, 'scalar totals accumulate work += data', ok, 'accumulation is %s' % [U(a) for a in accs], why + '; "=" keeps only the last source')
    keyasg = [n for n in ast.walk(lp) if isinstance(n, ast.Assign) and U(n.targets[0]) == 'key']
    ok = len(keyasg) == 1 and U(keyasg[0].value) == 'key_selector(%s)' % U(lp.target)
    ctx.ob('C18.R3', f, 'aggregation key = key_selector(source)', ok, 'key is %s' % [U(k) for k in keyasg], why)
    data = [n for n in ast.walk(lp) if isinstance(n, ast.Assign) and U(n.targets[0]) == 'data']
    ok = len(data) == 1 and U(data[0].value).replace(' ', '') == 'varz[metric][%s]' % U(lp.target)
    ctx.ob('C18.R3', f, 'data = varz[metric][source]', ok, 'data is %s' % [U(d) for d in data], why)
  tot = [n for n in ast.walk(f.node) if isinstance(n, ast.Assign) and U(n.targets[0]).endswith('.total') and U(n.value).endswith('.work')]
  ctx.ob('C18.R3', f, 'counter/rate/gauge total = accumulated work', len(tot) == 1, 'total assignment changed', why)
  ks = prog.func(V, 'DefaultKeySelector')
  r = [n for n in ast.walk(ks.node) if isinstance(n, ast.Return)]
  ctx.ob('C18.R3', ks, 'default key = (service, client_id)', len(r) == 1 and U(r[0].value).replace(' ', '') in ('(k.service,k.client_id)', 'k.service,k.client_id'),
         'default key selector changed', 'metrics are aggregated per service', nontrivial=False)
  # percentiles: from sorted values of the live reservoirs, ascending percentile list
  whyp = 'linear interpolation over an ascending sequence lies within [min, max] and is non-decreasing in the percentile only if the values are sorted and the percentiles ascend'
  vals = [n for n in ast.walk(f.node) if isinstance(n, ast.Assign) and U(n.targets[0]) == 'values']
  sorted_defs = [v for v in vals if isinstance(v.value, ast.Call) and U(v.value.func) == 'sorted']
  calls = [c for c in ast.walk(f.node) if isinstance(c, ast.Call) and call_attr(c) == 'CalculatePercentile']
  ok = len(calls) == 1 and U(calls[0].args[0]) == 'values' and bool(sorted_defs)
  reaching = []
  if ok:
    # on every path of the enclosing per-key loop, the definition of `values` reaching the call is sorted(...) or []
    loops = [l for l in ast.walk(f.node) if isinstance(l, ast.For) and any(c is calls[0] for c in ast.walk(l))]
    inner = min(loops, key=lambda l: len(list(ast.walk(l)))) if loops else None
    if inner is None:
      ok = False
    else:
      for ev, ex in enum_paths(ctx, f, body=inner.body):
        last = None
        for e in ev:
          if e.kind == 'stmt' and isinstance(e.node, ast.Assign) and U(e.node.targets[0]) == 'values':
            last = e.node.value
          if e.kind == 'call' and e.node is calls[0]:
            reaching.append(U(last)[:50] if last is not None else None)
            if not (last is not None and (U(last) == '[]' or (isinstance(last, ast.Call) and U(last.func) == 'sorted'))):
              ok = False
            break
      ok = ok and bool(reaching)
  ctx.ob('C18.R3', f, 'percentiles computed from sorted values', ok, 'definitions of values reaching CalculatePercentile: %s' % sorted(set(map(str, reaching))), whyp)
  # samples come from the reservoir data itself (v.data), not a cached copy
  ds = [c for c in ast.walk(f.node) if isinstance(c, ast.Call) and call_attr(c) == '_Downsample']
  ok = len(ds) == 1 and isinstance(ds[0].args[0], ast.Attribute) and ds[0].args[0].attr == 'data' and isinstance(ds[0].args[0].value, ast.Name)
  if ok:
    # the variable is the loop/comprehension variable over the collected sample sets (source_agg.work)
    v_ = ds[0].args[0].value.id
    gens = [g for n in ast.walk(f.node) if isinstance(n, (ast.ListComp, ast.GeneratorExp)) for g in n.generators if U(g.target) == v_] + \
           [n for n in ast.walk(f.node) if isinstance(n, ast.For) and U(n.target) == v_]
    ok = len(gens) == 1 and U(gens[0].iter).endswith('.work')
  ctx.ob('C18.R3', f, 'percentile input is the live reservoir (v.data)', ok, 'downsample input is %s' % [U(d.args[0]) for d in ds],
         'percentiles must lie between the smallest and largest *retained* sample; a stale copy reports samples the reservoir no longer holds')
  pcts = prog.cls(V, 'VarzReceiver').consts.get('VARZ_PERCENTILES')
  try:
    pv = prog.const_eval(pcts, prog.module(V))
    ok = list(pv) == sorted(pv) and all(0 <= x <= 1 for x in pv) and len(pv) >= 2
  except Exception:
    pv, ok = None, False
  ctx.ob('C18.R3', prog.cls(V, 'VarzReceiver'), 'percentile list ascending within [0, 1]', ok, 'VARZ_PERCENTILES = %s' % (pv,), whyp)
  comp = [c for c in ast.walk(f.node) if isinstance(c, ast.ListComp) and any(ca is calls[0] for ca in ast.walk(c))] if calls else []
  ok = bool(comp) and U(comp[0].generators[0].iter).endswith('VARZ_PERCENTILES') and U(calls[0].args[1]) == U(comp[0].generators[0].target)
  ctx.ob('C18.R3', f, 'one percentile per list entry, in list order', ok, 'percentile comprehension changed', whyp)
  # which metric kinds are reported as the plain sum over sources: resolve the membership test of the "total = work" branch
  vt = prog.cls(V, 'VarzType')
  summed = None
  for n in ast.walk(f.node):
    if isinstance(n, ast.If) and isinstance(n.test, ast.Compare) and len(n.test.ops) == 1 and isinstance(n.test.ops[0], ast.In) and U(n.test.left) == 'varz_type':
      sets_total = [st for st in ast.walk(ast.Module(body=n.body, type_ignores=[])) if isinstance(st, ast.Assign) and U(st.targets[0]).endswith('.total') and U(st.value).endswith('.work')]
      if not sets_total:
        continue
      coll = n.test.comparators[0]
      if isinstance(coll, (ast.Name, ast.Attribute)):
        nm = U(coll).split('.')[-1]
        cands = [c_.consts.get(nm) for c_ in (prog.cls(V, 'VarzAggregator'),) if c_ is not None] + [prog.module(V).assigns.get(nm)]
        coll = next((x for x in cands if x is not None), coll)
      if isinstance(coll, ast.Call) and coll.args:
        coll = coll.args[0]
      if isinstance(coll, (ast.Tuple, ast.List, ast.Set)):
        summed = set(U(e).split('.')[-1] for e in coll.elts)
  need = {'Counter', 'Rate'}
  ctx.ob('C18.R3', f, 'counter and rate metrics are reported as the sum over the sources of the service', summed is not None and need <= summed,
         'metric kinds reported as total = sum: %s (Counter and Rate must be among them; anything else falls into the mean branch work / count)' % (sorted(summed) if summed is not None else None),
         'counter and rate metrics aggregated per service equal the sum of all increments recorded for that service')
  # the roll-up walks the shared metric tables while other greenlets keep recording: a loop over a live dict view
  # whose body yields dies with "dictionary changed size during iteration" and the whole aggregate is lost
  from ..util import is_yield_call
  n_loops = 0
  for lp in [n for n in ast.walk(f.node) if isinstance(n, ast.For)]:
    it = lp.iter
    live = (isinstance(it, ast.Call) and isinstance(it.func, ast.Attribute) and it.func.attr in ('keys', 'values', 'items') and not it.args) or \
           isinstance(it, (ast.Name, ast.Attribute, ast.Subscript))
    if not live:
      continue
    src = U(it.func.value if isinstance(it, ast.Call) else it)
    if not (src == f.params[0] or src.startswith(f.params[0] + '[')):
      continue         # only views of the shared metric table (parameter `varz`)
    n_loops += 1
    ys = [U(c) for st in lp.body for c in ast.walk(st) if isinstance(c, ast.Call) and is_yield_call(c)
          and not any(c in ast.walk(inner) for inner in ast.walk(lp) if isinstance(inner, ast.For) and inner is not lp and False)]
    # yields that sit in the body of this loop (directly or in nested statements), not counting nested loops over a snapshot
    ctx.ob('C18.R3', f, 'loop over the live view %s does not yield (or iterates a snapshot)' % U(it), not ys,
           'the loop over %s yields at %s while other greenlets may add the first value of a new metric/source' % (U(it), ys),
           'aggregated counters must equal the sum of all increments: an aggregate that dies with RuntimeError reports nothing')
  ctx.ob('C18.R3', f, 'the roll-up walks the shared metric table', n_loops >= 1, 'no loop over the metric table found', whyp, nontrivial=False)
  cp = prog.func(V, 'VarzAggregator.CalculatePercentile')
  values, pct = cp.params[0], cp.params[1]
  K = '(len(%s)-1)*%s' % (values, pct)
  F, C = 'math.floor(%s)' % K, 'math.ceil(%s)' % K
  LO, HI = '%s[int(%s)]' % (values, F), '%s[int(%s)]' % (values, C)
  W = '%s-%s' % (K, F)
  inter = '%s+(%s-%s)*(%s)' % (LO, HI, LO, W)
  good_interp = {'min(%s,%s)' % (HI, inter), 'min(%s,%s)' % (inter, HI)}
  whyi = ('a reported percentile must lie between the two neighbouring retained samples and must not decrease as the percentile rises. The weighted sum '
          'lo*(c-k) + hi*(k-f) rounds its two products separately: for tied neighbours it lands a few ulps outside [lo, hi] ([89.8, 89.8] gives '
          'p90 = 89.79999999999998 < min and < p50). lo + (hi-lo)*(k-f), capped at hi, is inside and monotone in floating point')
  seen = set()
  for ev, ex in enum_paths(ctx, cp):
    if ex[0] != 'ret':
      continue
    r = [e for e in ev if e.kind == 'ret'][-1]
    i = ev.index(r)
    rt = resolved_text(ev, i, r.node.value) if r.node.value is not None else None
    conds = [(resolved_text(ev, j, e.node), bool(e.info)) for j, e in enumerate(ev[:i]) if e.kind == 'cond']
    if ('not%s' % values, True) in conds or (values, False) in conds or ('len(%s)==0' % values, True) in conds:
      seen.add('empty')
      ctx.ob('C18.R3', cp, 'no samples: percentile 0', rt in ('0', '0.0'), 'empty input returns %s' % rt, whyi, nontrivial=False)
      continue
    exact = [v for t, v in conds if t in ('%s==%s' % (F, C), '%s==%s' % (C, F))]
    tied = [v for t, v in conds if t in ('%s==%s' % (LO, HI), '%s==%s' % (HI, LO))]
    if exact and exact[-1]:
      seen.add('exact')
      ctx.ob('C18.R3', cp, 'integral rank: the sample at that rank', rt in ('%s[int(%s)]' % (values, K), LO, HI), 'integral rank returns %s' % rt, whyi)
    elif tied and tied[-1]:
      seen.add('tied')
      ctx.ob('C18.R3', cp, 'tied neighbours: that sample', rt in (LO, HI), 'tied neighbours return %s' % rt, whyi)
    else:
      seen.add('interp')
      ctx.ob('C18.R3', cp, 'interpolation stays between the neighbouring samples and is monotone: min(hi, lo + (hi - lo) * (k - f))', rt in good_interp,
             'interpolated value is %s' % rt, whyi)
  ctx.ob('C18.R3', cp, 'percentile cases: empty, integral rank, interpolated', {'empty', 'exact', 'interp'} <= seen, 'cases seen: %s' % sorted(seen), whyi)
  # downsample keeps values of the input only
  dsf = prog.func(V, 'VarzAggregator._Downsample')
  ys = [n for n in ast.walk(dsf.node) if isinstance(n, ast.Yield)]
  # values derived from the input list only: the list itself, sorted()/list()/slices of it, elements of those
  derived = set(dsf.params[:1])

  def from_input(e):
    if isinstance(e, ast.Name):
      return e.id in derived
    if isinstance(e, ast.Subscript) and isinstance(e.slice, ast.Slice):
      return from_input(e.value)
    if isinstance(e, ast.Call) and isinstance(e.func, ast.Name) and e.func.id in ('sorted', 'list', 'tuple', 'reversed') and len(e.args) == 1 and not e.keywords:
      return from_input(e.args[0])
    return False
  for _ in range(3):
    for st in ast.walk(dsf.node):
      if isinstance(st, ast.Assign) and len(st.targets) == 1 and isinstance(st.targets[0], ast.Name) and from_input(st.value):
        derived.add(st.targets[0].id)
  elems = set()
  for lp in [x for x in ast.walk(dsf.node) if isinstance(x, ast.For)]:
    it = lp.iter
    if isinstance(it, ast.Call) and isinstance(it.func, ast.Name) and it.func.id == 'enumerate' and it.args and from_input(it.args[0]) and isinstance(lp.target, ast.Tuple) and len(lp.target.elts) == 2:
      if isinstance(lp.target.elts[1], ast.Name):
        elems.add(lp.target.elts[1].id)
    elif from_input(it) and isinstance(lp.target, ast.Name):
      elems.add(lp.target.id)
  stores = {}
  for n_ in ast.walk(dsf.node):
    if isinstance(n_, ast.Name) and isinstance(n_.ctx, ast.Store):
      stores[n_.id] = stores.get(n_.id, 0) + 1

  def retained(v):
    if isinstance(v, ast.Name):
      return v.id in elems and stores.get(v.id, 0) <= sum(1 for lp in ast.walk(dsf.node) if isinstance(lp, ast.For) and any(isinstance(t_, ast.Name) and t_.id == v.id for t_ in ast.walk(lp.target)))
    if isinstance(v, ast.Subscript) and not isinstance(v.slice, ast.Slice):
      return from_input(v.value)
    return False
  ok = bool(ys) and all(y.value is not None and retained(y.value) for y in ys)
  ctx.ob('C18.R3', dsf, 'downsampling yields retained samples only', ok, 'yields %s' % [U(y.value) for y in ys], 'reported percentiles must come from retained samples')
  ss = prog.func(V, '_SampleSet.Sample')
  apps = [c for c in ast.walk(ss.node) if isinstance(c, ast.Call) and call_attr(c) == 'append']
  ok = bool(apps) and all(U(c.func.value) == 'self.data' and U(c.args[0]) == ss.params[1] for c in apps)
  ctx.ob('C18.R3', ss, 'reservoir appends the sample value to its bounded deque', ok, 'Sample changed', 'the reservoir holds the samples themselves')
  ssi = prog.func(V, '_SampleSet.__init__')
  ok = 'self.data=deque(data,max_size)' in U(ssi.node).replace(' ', '')
  ctx.ob('C18.R3', ssi, 'reservoir is a deque bounded by max_size', ok, '_SampleSet.__init__ changed', 'retained samples are bounded', nontrivial=False)
