"""C01 Every call completes exactly once, no later than its deadline."""
import ast

from ..model import AnalysisError, dotted, unparse
from ..structfmt import linform, lin_eq, local_defs, reaching_def, resolve_local
from ..util import resolved_text, POS, FACTS, FACTS_I, U, enum_paths, walk_no_nested, is_yield_call
from ..paths import call_attr, call_name
from ..sinkproto import SinkProto, check_request, check_response, kinds_of, describe
from . import c03, c10, c11

D = 'scales/dispatch.py'
S = 'scales/sink.py'

WHY_ONCE = ('every completion source (reply, fault, timer) drains the per-call sink stack from the top; "exactly once" holds only if each hop '
            'forwards exactly once and the terminal sets the AsyncResult exactly once')


def stack_classes(prog):
  """Sink classes of the Thrift and ThriftMux stacks (F6) + the helpers they hand requests to."""
  names = [
    (S, 'ClientTimeoutSink'), ('scales/thrift/sink.py', 'ThriftSerializerSink'), ('scales/thriftmux/sink.py', 'ThriftMuxMessageSerializerSink'),
    ('scales/thriftmux/sink.py', 'ClientIdInterceptorSink'), ('scales/loadbalancer/base.py', 'LoadBalancerSink'),
    ('scales/loadbalancer/heap.py', 'HeapBalancerSink'), ('scales/resurrector.py', 'ResurrectorSink'), ('scales/pool/base.py', 'PoolSink'),
    ('scales/pool/watermark.py', 'QueuingMessageSink'), (S, 'FailingMessageSink'), ('scales/thrift/sink.py', 'SocketTransportSink'),
    ('scales/mux/sink.py', 'MuxSocketTransportSink'),
  ]
  return [prog.cls(rel, n) for rel, n in names]


def check(ctx):
  prog = ctx.prog
  ctx.rule('C01.R1', 'terminal sink sets the caller AsyncResult exactly once on every path')
  ctx.rule('C01.R2', 'per-call state: fresh AsyncResult and sink stack, terminal pushed once before the stack escapes, same AsyncResult returned')
  ctx.rule('C01.R3', 'drain-once stack: Pop removes what Push appended, Pop only under an Any() guard, sink-level AsyncProcessResponse called only by the stack')
  ctx.rule('C01.R4', 'every sink in the stacks forwards a response upward exactly once per path; pushing sinks have a forwarding response method')
  ctx.rule('C01.R5', 'every request hop: transmitted at most once, answered or handed on at least once, never answered and still transmitted; no may-raise exit before that')
  ctx.rule('C01.R6', 'timeout sink: expired -> answer without forwarding; otherwise timer scheduled at the unchanged stored deadline with a completer, cancel closure pushed, then forwarded; response cancels before forwarding; timeout sink is the first hop')
  ctx.rule('C01.R7', 'deadline = t_issue + T as a linear form over clock samples taken before any deferral')
  ctx.rule('C01.R8', 'a call is never parked behind something unbounded before its deadline timer is armed')
  ctx.rule('C10.*', 'shared with C10: deadlines rounded up, timer entries cancelled only by flag, only the worker pops (TimeoutError never early)')
  ctx.rule('C03.R6', 'shared with C03: nothing under the balancer heap lock yields (every completion, including the timeout, needs that lock to release its member)')
  ctx.rule('C11.R3/R4', 'shared with C11: a tag is not released while its request may still be answered (a reply must reach its own call only)')
  ctx.decline('real punctuality of gevent timers/hub; at-least-once when non-I/O library code raises unexpectedly')
  r1(ctx)
  r2(ctx)
  r3(ctx)
  r45(ctx)
  r6(ctx)
  from . import c12 as _c12
  _c12.observable_truthy(ctx, 'C01.R6')
  _c12.timeout_only_from_timer(ctx, 'C01.R6')
  from . import c14 as _c14
  ctx.rule('C14.R2', 'shared with C14: the framed read loops advance by what was received and raise on an empty chunk (a peer that hangs up must surface as a fault; a loop that spins on b"" never yields and starves the hub, so no timer fires any more)')
  _c14.r2(ctx)
  _c14.error_stack_kind(ctx, 'C01.R1')
  r7(ctx)
  r8(ctx)
  from . import c05 as _c05
  ctx.rule('C05.R1', 'shared with C05: the balancer open completes whenever the server set provider answered, an empty member list included (every call is chained behind that open result before its timer is armed)')
  _c05.load_success_opens(ctx, 'C01.R8')
  sch = prog.func('scales/timer_queue.py', 'TimerQueue.Schedule')
  c10.r1(ctx, sch)
  tq = prog.cls('scales/timer_queue.py', 'TimerQueue')
  wk = prog.func('scales/timer_queue.py', 'TimerQueue._TimerWorker')
  c10.r2(ctx, tq, sch, wk)
  c10.r4(ctx, tq, sch, wk)
  c11.r2_r3(ctx)
  c11.r4(ctx)
  c03.r6(ctx)
  from . import c17 as _c17
  ctx.rule('C17.R4', 'shared with C17: a call issued before the client is open is answered through ContinueWith(...).Unwrap(): the continuation result is set exactly once and Unwrap hands on value or failure of the inner result')
  _c17.continue_with(ctx)
  _c17.unwrap(ctx)


def r1(ctx):
  prog = ctx.prog
  f = prog.func(D, '_AsyncResponseSink.AsyncProcessResponse')
  cparam = f.params[2]
  un = [st for st in walk_no_nested(f.node) if isinstance(st, ast.Assign) and isinstance(st.targets[0], ast.Tuple) and U(st.value) == cparam]
  if len(un) != 1 or len(un[0].targets[0].elts) < 3:
    raise AnalysisError('C01.R1: context unpacking not found in the terminal sink')
  ar = U(un[0].targets[0].elts[2])
  n = 0
  for ev, ex in enum_paths(ctx, f):
    if ex[0] != 'ret':
      ctx.ob('C01.R1', f, 'terminal does not raise', False, 'terminal sink path raises', WHY_ONCE)
      continue
    n += 1
    sets = [e for e in ev if e.kind == 'call' and call_attr(e.node) in ('set', 'set_exception') and U(e.node.func.value) == ar]
    ctx.ob('C01.R1', f, 'terminal completes the AsyncResult exactly once', len(sets) == 1,
           'a path of the terminal sink completes the caller %d times' % len(sets), WHY_ONCE)
    fs = FACTS(ev)
    if ('msg.error', True) in fs and sets:
      ok = call_attr(sets[0].node) == 'set_exception' and '_WrapException' in U(sets[0].node)
      ctx.ob('C01.R1', f, 'an error message completes with its exception', ok, 'error path completes with %s' % U(sets[0].node), 'an error reply must raise at the caller')
    if ('msg.error', False) in fs and sets:
      ok = call_attr(sets[0].node) == 'set' and U(sets[0].node.args[0]) == 'msg.return_value'
      ctx.ob('C01.R1', f, 'a value message completes with its return value', ok, 'value path completes with %s' % U(sets[0].node), 'a reply must deliver the value of that call')
  ctx.floor('C01.R1', 'terminal paths', n, 3)
  ctx.ob('C01.R2', un[0] and f, 'context layout (source, start, ar, props) matches the dispatcher', True, '', '', nontrivial=False)


def r2(ctx):
  prog = ctx.prog
  f = prog.func(D, 'MessageDispatcher.StaticDispatchMessage')
  why = 'the sink stack and the AsyncResult must be fresh per call: shared state lets one call complete or drain another'
  fresh = {}
  for st in walk_no_nested(f.node):
    if isinstance(st, ast.Assign) and isinstance(st.targets[0], ast.Name) and isinstance(st.value, ast.Call) and not st.value.args:
      fresh[st.targets[0].id] = U(st.value.func)
  ars = [k for k, v in fresh.items() if v == 'AsyncResult']
  stacks = [k for k, v in fresh.items() if v == 'ClientMessageSinkStack']
  ok = len(ars) == 1 and len(stacks) == 1
  ctx.ob('C01.R2', f, 'AsyncResult and sink stack are fresh locals', ok, 'fresh locals: %s' % fresh, why)
  if not ok:
    return
  ar, stk = ars[0], stacks[0]
  for ev, ex in enum_paths(ctx, f):
    push = [(i, e.node) for i, e in enumerate(ev) if e.kind == 'call' and U(e.node.func) == stk + '.Push']
    spawn = [(i, e.node) for i, e in enumerate(ev) if e.kind == 'call' and call_name(e.node) == 'gevent.spawn']
    ret = [e.node for e in ev if e.kind == 'ret']
    ok = len(push) == 1 and len(spawn) == 1 and push[0][0] < spawn[0][0]
    if ok:
      p = push[0][1]
      sink_expr = resolve_local(p.args[0], local_defs(f.node), p.lineno)
      ctxt = p.args[1] if len(p.args) > 1 else None
      ok = (isinstance(sink_expr, ast.Call) and U(sink_expr.func) == '_AsyncResponseSink' and isinstance(ctxt, ast.Tuple)
            and len(ctxt.elts) == 4 and U(ctxt.elts[2]) == ar)
      sp = spawn[0][1]
      ok = ok and len(sp.args) >= 3 and U(sp.args[0]).endswith('.AsyncProcessRequest') and U(sp.args[1]) == stk and U(sp.args[2]) == f.params[4]
    ctx.ob('C01.R2', f, 'terminal pushed once with the AsyncResult before the request is spawned with that stack', ok,
           'pushes %d, spawns %d' % (len(push), len(spawn)), WHY_ONCE)
    ctx.ob('C01.R2', f, 'the same AsyncResult is returned', bool(ret) and U(ret[-1].value) == ar, 'returns %s' % (U(ret[-1].value) if ret else None), WHY_ONCE)
    # deadline stored unchanged
    fs = FACTS(ev)
    dl = f.params[3]
    st = [e.node for e in ev if e.kind == 'stmt' and isinstance(e.node, ast.Assign) and 'Deadline.KEY' in U(e.node.targets[0])]
    if (dl, True) in fs:
      ctx.ob('C01.R7', f, 'the deadline is stored on the message unchanged', len(st) == 1 and U(st[0].value) == dl,
             'stored deadline is %s' % [U(s.value) for s in st], 'the timer is armed at the stored value; it must be the computed deadline')


def r3(ctx):
  prog = ctx.prog
  why = ('late replies, faults and timers must find the stack empty: Pop has to remove the entry, be guarded by Any(), and nothing but the stack '
         'may call the sink-level AsyncProcessResponse')
  push = prog.func(S, 'SinkStack.Push')
  pop = prog.func(S, 'SinkStack.Pop')
  anyf = prog.func(S, 'SinkStack.Any')
  app = [c for c in walk_no_nested(push.node) if isinstance(c, ast.Call) and isinstance(c.func, ast.Attribute) and c.func.attr in ('append', 'appendleft')]
  rem = [n for n in walk_no_nested(pop.node) if isinstance(n, ast.Return)]
  ok = len(app) == 1 and len(rem) == 1 and isinstance(rem[0].value, ast.Call) and isinstance(rem[0].value.func, ast.Attribute)
  if ok:
    cont = U(app[0].func.value)
    pair = (app[0].func.attr, rem[0].value.func.attr)
    ok = U(rem[0].value.func.value) == cont and pair in (('append', 'pop'), ('appendleft', 'popleft')) and not rem[0].value.args
  ctx.ob('C01.R3', pop, 'Pop removes the entry Push added, at the same end', ok, 'Push/Pop pair is %s' % (([U(a) for a in app], [U(r.value) for r in rem]),),
         why + '; a Pop that only peeks lets every later arrival complete the call again')
  okp = ok and isinstance(app[0].args[0], ast.Tuple) and [U(e) for e in app[0].args[0].elts] == push.params[1:3]
  ctx.ob('C01.R3', push, 'Push stores (sink, context)', okp, 'Push stores %s' % ([U(a.args[0]) for a in app]), why, nontrivial=False)
  t = U(anyf.node.body[-1]).replace(' ', '')
  ctx.ob('C01.R3', anyf, 'Any() is non-emptiness of the stack', t in ('returnany(self._stack)', 'returnlen(self._stack)>0', 'returnbool(self._stack)', 'returnlen(self._stack)!=0'),
         'Any() is %s' % t, why)
  f = prog.func(S, 'ClientMessageSinkStack.AsyncProcessResponse')
  n = 0
  for ev, ex in enum_paths(ctx, f):
    pops = [i for i, e in enumerate(ev) if e.kind == 'call' and U(e.node.func) == 'self.Pop']
    fwd = [(i, e.node) for i, e in enumerate(ev) if e.kind == 'call' and call_attr(e.node) == 'AsyncProcessResponse' and len(e.node.args) == 4]
    fs = FACTS_I(ev)
    if pops:
      n += 1
      guarded = any(c == 'self.Any()' and t and i < pops[0] for c, t, i in fs)
      ok = guarded and len(pops) == 1 and len(fwd) == 1 and fwd[0][0] > pops[0]
      if ok:
        un = [e.node for e in ev if e.kind == 'stmt' and isinstance(e.node, ast.Assign) and isinstance(e.node.value, ast.Call) and U(e.node.value.func) == 'self.Pop']
        ok = bool(un) and isinstance(un[0].targets[0], ast.Tuple) and len(un[0].targets[0].elts) == 2
        if ok:
          sk, cx = [U(x) for x in un[0].targets[0].elts]
          c = fwd[0][1]
          ok = U(c.func.value) == sk and [U(a) for a in c.args] == ['self', cx, f.params[1], f.params[2]]
      ctx.ob('C01.R3', f, 'stack pops once under Any() and hands the response to the popped sink with its context', ok, 'pop/forward shape changed', why)
    else:
      ctx.ob('C01.R3', f, 'an empty stack absorbs the response', not fwd, 'forwarding without a pop', why)
  ctx.floor('C01.R3', 'pop paths of the stack', n, 1)
  for nm, want in (('AsyncProcessResponseStream', ['%s', 'None']), ('AsyncProcessResponseMessage', ['None', '%s'])):
    g = prog.func(S, 'ClientMessageSinkStack.' + nm)
    c = [x for x in walk_no_nested(g.node) if isinstance(x, ast.Call)]
    ok = len(c) == 1 and U(c[0].func) == 'self.AsyncProcessResponse' and [U(a) for a in c[0].args] == [w % g.params[1] if '%' in w else w for w in want]
    ctx.ob('C01.R3', g, '%s delegates to AsyncProcessResponse' % nm, ok, 'body is %s' % [U(x) for x in c], why, nontrivial=False)
  # who may call the 4-argument sink-level AsyncProcessResponse / who may Pop
  callers = []
  pops = []
  for g in prog.all_funcs:
    for c in walk_no_nested(g.node):
      if isinstance(c, ast.Call) and isinstance(c.func, ast.Attribute):
        if c.func.attr == 'AsyncProcessResponse' and len(c.args) + len(c.keywords) == 4:
          callers.append(g.qualname)
        if c.func.attr == 'Pop' and not c.args and g.cls is not None and g.qualname != 'SinkStack.Pop':
          pops.append((g, c))
  ctx.ob('C01.R3', f, 'only the stack calls the sink-level AsyncProcessResponse', callers == ['ClientMessageSinkStack.AsyncProcessResponse'],
         'sink-level AsyncProcessResponse is called from %s' % callers, why)
  for g, c in pops:
    recv = U(c.func.value)
    if g.qualname == 'ClientMessageSinkStack.AsyncProcessResponse':
      continue
    ok = True
    found = False
    for ev, ex in enum_paths(ctx, g):
      idx = [i for i, e in enumerate(ev) if e.kind == 'call' and e.node is c]
      if not idx:
        continue
      found = True
      fs = FACTS(ev[:idx[0]])
      if not ((recv + '.Any()', True) in fs or ('not' + recv + '.Any()', False) in fs):
        ok = False
    ctx.ob('C01.R3', g, 'Pop() on %s is guarded by Any()' % recv, ok and found, 'Pop() without a dominating Any() check on the same stack',
           why + ' (a timed-out waiter has a drained stack: an unguarded Pop raises IndexError and loses the connection)')
  pop_discipline(ctx, 'C01.R3')
  push_discipline(ctx, 'C01.R3')


_PUSHERS = ('AsyncProcessRequest', '_AsyncProcessRequestImpl', '_AsyncProcessRequestToTopic', '_send_msg', '_ProcessQueue', 'StaticDispatchMessage')


def push_discipline(ctx, rule):
  """Frames are pushed on a call's sink stack only while the request travels down (the request methods, the pool's queue hand-off, the dispatcher that creates the
  stack).  A completion, timeout or fault path that pushes a frame leaves a non-empty stack behind a call that is over."""
  prog = ctx.prog
  why = ('"the stack is drained" is how every hop recognises a call that already completed (the pool skips such a waiter, the balancer does not dispatch it): a frame pushed '
         'after the call was completed makes a dead call look live -- it is sent on a connection, and its reply is handed to whatever that frame holds')
  bad = []
  n = 0
  for g in prog.all_funcs:
    for c in walk_no_nested(g.node):
      if isinstance(c, ast.Call) and isinstance(c.func, ast.Attribute) and c.func.attr == 'Push' and g.cls is not None and g.qualname not in ('SinkStack.Push',):
        n += 1
        top = g
        while top.parent is not None:
          top = top.parent
        if g.name not in _PUSHERS and top.name not in _PUSHERS:
          bad.append('%s: %s' % (g.qualname, U(c)[:60]))
  ctx.ob(rule, prog.func('scales/sink.py', 'ClientTimeoutSink.AsyncProcessRequest'), 'frames are pushed only on the request path', not bad, 'pushed from %s' % bad, why)
  ctx.floor(rule, 'Push sites', n, 8)


def pop_discipline(ctx, rule):
  """Frames on a call's sink stack are taken off by the stack's own response walk only; any other code that pops a frame puts one back in its place
  (the pool swaps its queuing placeholder for the real connection).  Nobody discards frames."""
  prog = ctx.prog
  why = ('every hop that pushed itself is owed the completion: the balancer releases the member load, the pool takes its connection back, the timeout sink cancels its timer -- '
         'all from their frame on the stack; a completion that skips frames (unwinds to its own) leaks load, connections and timers')
  n = 0
  for g in prog.all_funcs:
    for c in walk_no_nested(g.node):
      if not (isinstance(c, ast.Call) and isinstance(c.func, ast.Attribute) and c.func.attr == 'Pop' and not c.args and g.cls is not None):
        continue
      if g.qualname in ('SinkStack.Pop', 'ClientMessageSinkStack.AsyncProcessResponse'):
        continue
      n += 1
      recv = U(c.func.value)
      ok = True
      for ev, ex in enum_paths(ctx, g):
        idx = [i for i, e in enumerate(ev) if e.kind == 'call' and e.node is c]
        if not idx:
          continue
        pushes = [i for i, e in enumerate(ev) if e.kind == 'call' and call_attr(e.node) == 'Push' and U(e.node.func.value) == recv and i > idx[0]]
        if len(pushes) < len(idx):
          ok = False
      ctx.ob(rule, g, 'a frame popped outside the stack walk is replaced by a pushed one', ok,
             '%s pops %s without pushing a frame back on every such path' % (g.qualname, recv), why)
  return n


def stream_only_without_message(ctx, rsp):
  """AsyncProcessResponse(sink_stack, context, stream, msg) carries EITHER a reply stream or a ready-made message (timeouts, faults, fail-fast and
  no-member errors are messages with stream None): the stream is looked into only where the message is known to be absent."""
  if len(rsp.params) < 5:
    return
  stream, msg = rsp.params[3], rsp.params[4]
  why = ('locally generated completions (TimeoutError from the timer, transport faults, FailedFastError) walk the same response path with stream = None: dereferencing the stream on '
         'that path raises in the middle of the walk, the sinks above never see the completion and the call hangs')
  for ev, ex in enum_paths(ctx, rsp):
    for i, e in enumerate(ev):
      if e.kind not in ('call', 'stmt', 'cond', 'ret'):
        continue
      deref = [x for x in ast.walk(e.node) if isinstance(x, ast.Attribute) and isinstance(x.value, ast.Name) and x.value.id == stream]
      if e.kind == 'call' and not deref:
        nm = call_attr(e.node) or ''
        if nm not in ('AsyncProcessResponse', 'AsyncProcessResponseStream', 'AsyncProcessResponseMessage') and any(isinstance(a, ast.Name) and a.id == stream for a in e.node.args):
          deref = [e.node]
      if not deref or e.kind == 'stmt' and any(ev[j].kind == 'call' and any(x is d for d in deref for x in ast.walk(ev[j].node)) for j in range(max(0, i - 3), i)):
        continue
      fs = FACTS(ev[:i])
      absent = (msg, False) in fs or ('not' + msg, True) in fs or ('%sisNone' % msg, True) in fs or (stream, True) in fs or ('%sisnotNone' % stream, True) in fs
      ctx.ob('C01.R4', rsp, 'the reply stream is read only where no ready-made message was delivered', absent,
             '%s is evaluated on a path that has not established that %s is absent (facts: %s)' % (U(deref[0])[:60], msg, sorted(c for c, t in fs if msg in c or stream in c)), why)


def r45(ctx):
  prog = ctx.prog
  sp = SinkProto(ctx)
  why4 = WHY_ONCE
  why5 = ('a request must travel down the stack exactly once or be answered: transmitting twice duplicates the call, transmitting after answering '
          'sends a call nobody waits for, doing neither loses the completion')
  n4 = n5 = 0
  for c in stack_classes(prog):
    rsp = c.methods.get('AsyncProcessResponse')
    req = c.methods.get('AsyncProcessRequest')
    pushes_self = False
    for m in c.methods.values():
      for x in ast.walk(m.node):
        if isinstance(x, ast.Call) and call_attr(x) == 'Push' and x.args and U(x.args[0]) == 'self':
          pushes_self = True
    if rsp is not None:
      body = [s for s in rsp.node.body if not (isinstance(s, ast.Expr) and isinstance(s.value, ast.Constant))]
      inert = len(body) == 1 and isinstance(body[0], (ast.Raise, ast.Pass))
      if inert:
        ctx.ob('C01.R4', c, '%s never pushes itself (its response method is inert)' % c.name, not pushes_self,
               '%s pushes itself on the stack but its AsyncProcessResponse is raise/pass: the response chain stops there' % c.name, why4)
      else:
        n4 += check_response(ctx, sp, 'C01.R4', rsp, rsp.params[1], why4)
        stream_only_without_message(ctx, rsp)
    if req is not None and not req.is_abstract:
      body = [s for s in req.node.body if not (isinstance(s, ast.Expr) and isinstance(s.value, ast.Constant))]
      if len(body) == 1 and isinstance(body[0], ast.Raise):
        continue
      allow = None
      if req.qualname == 'LoadBalancerSink.AsyncProcessRequest':
        # a call whose timeout event is set was already completed by its timer (the stack is drained): dropping it is the correct outcome
        allow = lambda facts: any(c.endswith('.Get()') and t for c, t in POS(facts))
      n5 += check_request(ctx, sp, 'C01.R5', req, req.params[1], why5, allow_drop=allow)
  # hand-off targets
  lb = prog.func('scales/loadbalancer/base.py', 'LoadBalancerSink.AsyncProcessRequest')
  for cb in lb.nested.values():
    n5 += check_request(ctx, sp, 'C01.R5', cb, lb.params[1], why5, label='deferred until open',
                        allow_drop=lambda facts: any(c.endswith('.Get()') and t for c, t in POS(facts)) or ('nottimeout_eventornottimeout_event.Get()', False) in facts)
  hb = prog.func('scales/loadbalancer/heap.py', 'HeapBalancerSink._AsyncProcessRequestImpl')
  n5 += check_request(ctx, sp, 'C01.R5', hb, hb.params[1], why5, label='balancer dispatch')
  pq = prog.func('scales/pool/watermark.py', 'WatermarkPoolSink._ProcessQueue')
  # stack variable comes from the waiter tuple
  un = [st for st in ast.walk(pq.node) if isinstance(st, ast.Assign) and isinstance(st.targets[0], ast.Tuple) and 'popleft' in U(st.value)]
  if len(un) != 1:
    raise AnalysisError('C01.R5: waiter unpacking not found in _ProcessQueue')
  wstack = U(un[0].targets[0].elts[0])
  loops = [n for n in pq.node.body if isinstance(n, ast.While)]
  body = loops[0].body if loops else None
  if body is not None and not any(isinstance(c_, ast.Call) and call_attr(c_) == 'AsyncProcessRequest' for st_ in body for c_ in ast.walk(st_)):
    # search-loop form (the loop only finds the live waiter, the hand-off follows it): the whole function is the unit; a path that
    # never tested a waiter has none to answer
    body = None
  n5 += check_request(ctx, sp, 'C01.R5', pq, wstack, why5, label='resumed waiter', body=body,
                      allow_drop=lambda facts: ('not%s.Any()' % wstack, True) in facts or ('%s.Any()' % wstack, False) in facts or
                      (body is None and not any('.Any()' in c_ for c_, _t in POS(facts))))
  cl = prog.func('scales/pool/watermark.py', 'WatermarkPoolSink.Close')
  comps = [n for n in ast.walk(cl.node) if isinstance(n, (ast.ListComp, ast.For)) and '_waiters' in U(n.generators[0].iter if isinstance(n, ast.ListComp) else n.iter)]
  ok = False
  if len(comps) == 1:
    inner = comps[0].elt if isinstance(comps[0], ast.ListComp) else comps[0].body[0].value
    tgt = comps[0].generators[0].target if isinstance(comps[0], ast.ListComp) else comps[0].target
    ok = isinstance(inner, ast.Call) and call_attr(inner) == 'AsyncProcessRequest' and isinstance(tgt, ast.Tuple) and U(inner.args[0]) == U(tgt.elts[0])
  ctx.ob('C01.R5', cl, 'pool Close offers every queued waiter to a failing sink', ok, 'waiter loop in Close changed',
         'queued requests must be failed when the pool closes, not left until their timeout')
  ctx.floor('C01.R4', 'response paths', n4, 8)
  ctx.floor('C01.R5', 'request paths', n5, 25)
  ctx.extra['sink_paths_response'] = n4
  ctx.extra['sink_paths_request'] = n5
  if sp.unresolved:
    ctx.info('stack passed to unresolved callees: %s' % [(f.qualname, U(c)) for f, c in sp.unresolved])


def r6(ctx):
  prog = ctx.prog
  f = prog.func(S, 'ClientTimeoutSink.AsyncProcessRequest')
  stack, msg = f.params[1], f.params[2]
  why = ('a call completes no later than its deadline only if a timer that posts TimeoutError into this call\'s stack is armed at the stored '
         'deadline before the request travels on; an expired call is answered at once and not forwarded')
  sp = SinkProto(ctx)
  dl_defs = [st for st in walk_no_nested(f.node) if isinstance(st, ast.Assign) and 'Deadline.KEY' in U(st.value) and 'properties' in U(st.value)]
  if len(dl_defs) != 1:
    raise AnalysisError('C01.R6: deadline read not found in the timeout sink')
  dl = U(dl_defs[0].targets[0])
  rebinds = [st for st in walk_no_nested(f.node) if isinstance(st, (ast.Assign, ast.AugAssign)) and st is not dl_defs[0]
             and dl in [U(t) for t in (st.targets if isinstance(st, ast.Assign) else [st.target])]]
  ctx.ob('C01.R6', f, 'the deadline read from the message is not modified', not rebinds, 'deadline rebound: %s' % [U(r) for r in rebinds], why)
  n_arm = n_exp = 0
  for items, ex, facts in sp.summarize(f, stack):
    ks = kinds_of(items)
    truthy = (dl, True) in facts
    if not truthy:
      ctx.ob('C01.R6', f, 'no deadline: forwarded unchanged', ks.count('FWD') == 1 and 'COMPLETER' not in ks, 'no-deadline path: %s' % describe(items), why, nontrivial=False)
      continue
    dlx = U(dl_defs[0].value).replace(' ', '')
    exp_true = any((t_ % d_, True) in facts for t_ in ('%s<now', '%s<=now', '%s<time.time()', '%s<=time.time()') for d_ in (dl, dlx))
    if exp_true:
      n_exp += 1
      ctx.ob('C01.R6', f, 'expired call is answered with no forwarding', 'UP' in ks and 'FWD' not in ks and 'COMPLETER' not in ks,
             'expired path: %s' % describe(items), why)
      continue
    n_arm += 1
    order = [k for k in ks if k in ('COMPLETER', 'PUSH', 'FWD', 'UP')]
    ctx.ob('C01.R6', f, 'timer armed, cancel pushed, then forwarded', order == ['COMPLETER', 'PUSH', 'FWD'], 'armed path order is %s' % order, why)
    sched = [i.node for i in items if i.kind == 'COMPLETER']
    if sched:
      c = sched[0]
      targets, st = prog.resolve_call(c, f)
      okq = st == 'resolved' and [t.qualname for t in targets] == ['TimerQueue.Schedule']
      okd = bool(c.args) and U(c.args[0]) == dl
      ctx.ob('C01.R6', f, 'timer scheduled on the timer queue at the stored deadline', okq and okd,
             'Schedule call is %s (resolves to %s)' % (U(c)[:80], [t.qualname for t in targets]), why + '; a later time completes late, an earlier one raises TimeoutError early')
      # which queue: the call timer must tick on the wall clock with a fine resolution -- a queue built with a coarse resolution or a
      # lagging time source (LOW_RESOLUTION_TIMER_QUEUE: whole seconds, clock refreshed once a second) posts TimeoutError 1-2 s after t+T
      qn = U(c.func.value) if isinstance(c.func, ast.Attribute) else None
      r_ = prog.resolve_name(f.module, qn, f.cls) if qn else None
      fine = False
      qdesc = 'unresolved'
      if isinstance(r_, tuple) and r_[0] == 'const' and isinstance(r_[2], ast.Call) and (dotted(r_[2].func) or '').split('.')[-1] == 'TimerQueue':
        kw = dict((k.arg, k.value) for k in r_[2].keywords)
        qdesc = U(r_[2])
        res_ok = True
        if 'resolution' in kw:
          try:
            res_ok = float(prog.const_eval(kw['resolution'], r_[1])) <= 0.01
          except Exception:
            res_ok = False
        fine = res_ok and 'time_source' not in kw and not r_[2].args
      ctx.ob('C01.R6', f, 'the call timer runs on a fine-grained wall-clock timer queue', fine, 'the timeout is scheduled on %s = %s' % (qn, qdesc),
             'the call must complete no later than t+T (plus the 10 ms quantum): a queue that rounds to whole seconds on a once-a-second clock delivers TimeoutError 1-2 s late')
      # pushed context is the cancel closure returned by Schedule
      push = [i.node for i in items if i.kind == 'PUSH']
      cancel = [U(s.targets[0]) for s in walk_no_nested(f.node) if isinstance(s, ast.Assign) and s.value is c]
      okc = bool(push) and len(push[0].args) == 2 and U(push[0].args[0]) == 'self' and ((cancel and U(push[0].args[1]) == cancel[0]) or push[0].args[1] is c)
      ctx.ob('C01.R6', f, 'the cancel closure of that timer is pushed as this sink\'s context', okc, 'Push is %s' % ([U(p) for p in push]),
             'the response path cancels the timer through the pushed context')
    evs = [s for s in walk_no_nested(f.node) if isinstance(s, ast.Assign) and 'EVENT_KEY' in U(s.targets[0])]
    ctx.ob('C01.R6', f, 'the timeout event is published on the message', len(evs) == 1, 'EVENT_KEY assignments: %d' % len(evs),
           'hops that park the request read this event to learn that the call timed out')
  ctx.floor('C01.R6', 'armed paths', n_arm, 1)
  ctx.floor('C01.R6', 'expired paths', n_exp, 1)
  now_defs = [st for st in walk_no_nested(f.node) if isinstance(st, ast.Assign) and U(st.targets[0]) == 'now']
  ctx.ob('C01.R6', f, 'expiry is judged against time.time()', any(U(s.value) == 'time.time()' for s in now_defs) or 'time.time()' in U(f.node), 'clock source changed', why, nontrivial=False)
  # the completer
  h = prog.func(S, 'ClientTimeoutSink._TimeoutHelper')
  evt, hstack = h.params[1], h.params[2]
  for ev, ex in enum_paths(ctx, h):
    ups = [(i, e.node) for i, e in enumerate(ev) if e.kind == 'call' and call_attr(e.node) in ('AsyncProcessResponseMessage', 'AsyncProcessResponse') and U(e.node.func.value) == hstack]
    sets = [i for i, e in enumerate(ev) if e.kind == 'call' and U(e.node.func) == evt + '.Set']
    fs = FACTS(ev)
    ok = len(ups) == 1 and 'TimeoutError()' in U(ups[0][1]) + ''.join(U(e.node) for e in ev if e.kind == 'stmt')
    if ok:
      a = resolve_local(ups[0][1].args[-1], local_defs(h.node), ups[0][1].lineno)
      ok = isinstance(a, ast.Call) and U(a.func) == 'MethodReturnMessage' and any(k.arg == 'error' and U(k.value) == 'TimeoutError()' for k in a.keywords)
    ctx.ob('C01.R6', h, 'the timer posts MethodReturnMessage(error=TimeoutError()) into the call\'s stack once', ok, 'timeout helper posts %s' % [U(u[1]) for u in ups], why)
    if (evt, True) in fs:
      ctx.ob('C01.R6', h, 'the timeout event is set before the timeout is posted', len(sets) == 1 and bool(ups) and sets[0] < ups[0][0] and [U(a_) for a_ in ev[sets[0]].node.args] == ['True'] and not ev[sets[0]].node.keywords,
             'event set at %s with %s, posted at %s' % (sets, [U(ev[i_].node) for i_ in sets], [u[0] for u in ups]),
             'parked hops must see the event by the time the caller has its TimeoutError (they test the value: Set() without a value stores None, which reads as "not timed out")')
  set_paths = 0
  for ev, ex in enum_paths(ctx, h):
    if any(e.kind == 'call' and U(e.node.func) == evt + '.Set' and [U(a) for a in e.node.args] == ['True'] for e in ev):
      set_paths += 1
  ctx.ob('C01.R6', h, 'the timer path sets the timeout event to True', set_paths >= 1, 'no path of the timeout helper sets the event',
         'hops that parked the request (balancer open gate, mux send queue) read this event to learn that the caller already has its TimeoutError')
  r = prog.func(S, 'ClientTimeoutSink.AsyncProcessResponse')
  for ev, ex in enum_paths(ctx, r):
    cc = [i for i, e in enumerate(ev) if e.kind == 'call' and isinstance(e.node.func, ast.Name) and resolved_text(ev, i, e.node.func) == r.params[2]]
    up = [i for i, e in enumerate(ev) if e.kind == 'call' and call_attr(e.node) in ('AsyncProcessResponse', 'AsyncProcessResponseMessage', 'AsyncProcessResponseStream')]
    ctx.ob('C01.R6', r, 'response cancels the timer before forwarding', len(cc) == 1 and len(up) == 1 and cc[0] < up[0], 'cancel at %s, forward at %s' % (cc, up),
           'a timer that is not cancelled fires later and (only thanks to the drained stack) is wasted; cancelling after forwarding races with it')
  b = prog.func('scales/core.py', 'Scales.ClientBuilder.Build')
  txt = U(b.node).replace(' ', '')
  prov = [U(st.targets[0]) for st in walk_no_nested(b.node) if isinstance(st, ast.Assign) and U(st.value) == 'TimeoutSinkProvider()']
  ok = len(prov) == 1 and '%s.next_provider=self._stack[0]' % prov[0] in txt
  md = [c for c in walk_no_nested(b.node) if isinstance(c, ast.Call) and U(c.func) == 'MessageDispatcher']
  ok = ok and len(md) == 1 and len(md[0].args) >= 3 and U(md[0].args[1]) == prov[0] and U(md[0].args[2]) == 'self._timeout'
  ctx.ob('C01.R6', b, 'the timeout sink is the first hop below the dispatcher', ok, 'builder wiring changed',
         'every hop that can park or lose a request must sit below the timer')
  ts = prog.cls(S, 'ClientTimeoutSink')
  gq = prog.module('scales/timer_queue.py').assigns.get('GLOBAL_TIMER_QUEUE')
  ctx.ob('C01.R6', ts, 'GLOBAL_TIMER_QUEUE is a real-time TimerQueue', gq is not None and U(gq) == 'TimerQueue()', 'GLOBAL_TIMER_QUEUE = %s' % (U(gq) if gq is not None else None),
         'deadlines are absolute time.time() values', nontrivial=False)


def r7_config(ctx):
  """The T of `t + T`: the builder hands the value given to SetTimeout (default 10 s) to the dispatcher, which uses it for every call
  that does not bring its own timeout; nothing else writes it."""
  prog = ctx.prog
  why = ('a call completes no later than t + T where T is the configured call timeout: a setter of another option that writes the same attribute, or the '
         'wrong attribute handed to the dispatcher, silently changes T (T = 0 / None means no deadline at all: the call may never complete)')
  C = 'scales/core.py'
  build = prog.func(C, 'Scales.ClientBuilder.Build')
  init = prog.func(D, 'MessageDispatcher.__init__')
  # the dispatcher parameter that becomes the default timeout
  tparam = None
  for st in walk_no_nested(init.node):
    if isinstance(st, ast.Assign) and U(st.targets[0]) == 'self._dispatch_timeout' and isinstance(st.value, ast.Name):
      tparam = st.value.id
  if tparam is None or tparam not in init.params:
    raise AnalysisError('C01.R7: MessageDispatcher.__init__ does not store its default timeout parameter')
  pos = init.params.index(tparam) - 1
  calls = [c for c in ast.walk(build.node) if isinstance(c, ast.Call) and U(c.func).split('.')[-1] == 'MessageDispatcher']
  if len(calls) != 1:
    raise AnalysisError('C01.R7: MessageDispatcher construction not found in Build')
  c = calls[0]
  arg = c.args[pos] if pos < len(c.args) and not any(isinstance(a, ast.Starred) for a in c.args[:pos + 1]) else dict((k.arg, k.value) for k in c.keywords).get(tparam)
  src = U(arg) if arg is not None else None
  ctx.ob('C01.R7', build, 'the dispatcher is built with the configured call timeout', src is not None and src.startswith('self._') and 'open' not in src,
         'MessageDispatcher default timeout argument is %s' % src, why)
  if src and src.startswith('self._'):
    attr = src[5:]
    writers = []
    for f in prog.all_funcs:
      if f.module.rel != C or not f.qualname.startswith('Scales.ClientBuilder.'):
        continue
      for st in walk_no_nested(f.node):
        if isinstance(st, (ast.Assign, ast.AugAssign)):
          for t in (st.targets if isinstance(st, ast.Assign) else [st.target]):
            for x in ([t] if not isinstance(t, ast.Tuple) else t.elts):
              if U(x) == 'self.' + attr:
                writers.append((f, st))
    bad = []
    setters = 0
    for f, st in writers:
      if f.name == '__init__':
        ok = isinstance(st, ast.Assign) and isinstance(st.value, ast.Constant) and isinstance(st.value.value, (int, float)) and st.value.value > 0
      else:
        ok = isinstance(st, ast.Assign) and isinstance(st.value, ast.Name) and st.value.id in f.params[1:] and 'open' not in f.name.lower() and 'timeout' in f.name.lower()
        setters += 1 if ok else 0
      if not ok:
        bad.append('%s: %s' % (f.qualname, U(st)))
    ctx.ob('C01.R7', build, 'the call timeout is written by its constructor default and its own setter only', not bad and setters == 1,
           'self.%s is written by %s' % (attr, bad or [f.qualname for f, _ in writers]), why)


def r7(ctx):
  prog = ctx.prog
  r7_config(ctx)
  f = prog.func(D, 'MessageDispatcher._DispatchMethod')
  why = ('TimeoutError is never delivered before t+T and the call completes by t+T: the stored deadline must be exactly the issue time plus the '
         'timeout; any other clock-sample coefficient moves it')
  defs = local_defs(f.node)
  # which parameters of _DispatchMethod carry the timeout and the issue time: bound at the call sites in DispatchMethodCall
  g = prog.func(D, 'MessageDispatcher.DispatchMethodCall')
  tp = g.params[4]
  gclock = [U(st.targets[0]) for st in walk_no_nested(g.node) if isinstance(st, ast.Assign) and U(st.value) == 'time.time()' and isinstance(st.targets[0], ast.Name)]
  tparam = sparam = None
  for c in ast.walk(g.node):
    if isinstance(c, ast.Call) and call_attr(c) == '_DispatchMethod':
      for i, a in enumerate(c.args):
        if 1 + i < len(f.params):
          if U(a) == tp:
            tparam = f.params[1 + i]
          if U(a) in gclock:
            sparam = f.params[1 + i]
  if tparam is None:
    raise AnalysisError('C01.R7: timeout parameter of _DispatchMethod not found')
  if sparam is None:
    ctx.ob('C01.R7', f, 'deadline = start_time + timeout', False,
           '_DispatchMethod does not receive the issue time sampled in DispatchMethodCall (clock samples there: %s)' % gclock, why)
    sparam = '<issue time>'
  call = [c for c in walk_no_nested(f.node) if isinstance(c, ast.Call) and call_attr(c) == 'StaticDispatchMessage']
  if len(call) != 1 or len(call[0].args) < 5:
    raise AnalysisError('C01.R7: StaticDispatchMessage call not found')
  darg = call[0].args[3]
  n = 0
  for ev, ex in enum_paths(ctx, f):
    fs = FACTS(ev)
    last = None
    for e in ev:
      if e.kind == 'stmt' and isinstance(e.node, ast.Assign) and U(e.node.targets[0]) == U(darg):
        last = e.node
    if (tparam, True) in fs:
      n += 1
      ok = False
      lf = None
      if last is not None:
        try:
          lf = linform(last.value, defs, last.lineno)
          ok = lin_eq(lf, {sparam: 1, tparam: 1})
        except ValueError:
          pass
      ctx.ob('C01.R7', f, 'deadline = start_time + timeout', ok, 'deadline has linear form %s' % lf, why)
    elif (tparam, False) in fs:
      ctx.ob('C01.R7', f, 'no timeout: no deadline', last is not None and U(last.value) == 'None', 'no-timeout path sets %s' % (U(last.value) if last is not None else None), why, nontrivial=False)
  ctx.floor('C01.R7', 'deadline paths', n, 1)
  ctx.ob('C01.R7', f, 'the dispatcher passes start_time and the deadline on', U(call[0].args[2]) == sparam, 'start time argument is %s' % U(call[0].args[2]), why, nontrivial=False)
  for ev, ex in enum_paths(ctx, g):
    if ex[0] != 'ret':
      continue
    clock = [i for i, e in enumerate(ev) if e.kind == 'stmt' and isinstance(e.node, ast.Assign) and U(e.node.value) == 'time.time()']
    br = [i for i, e in enumerate(ev) if e.kind == 'cond' and 'ready()' in U(e.node)]
    tdef = [e.node for e in ev if e.kind == 'stmt' and isinstance(e.node, ast.Assign) and U(e.node.targets[0]) == tp]
    ok = len(clock) == 1 and br and clock[0] < br[0]
    okt = len(tdef) == 1 and U(tdef[0].value).replace(' ', '') == '%sorself._dispatch_timeout' % tp
    ctx.ob('C01.R7', g, 'issue time is sampled before the open-state branch', bool(ok), 'clock samples at %s, branch at %s' % (clock, br),
           'for calls issued before open completed t is the time of the call, not of the end of open')
    ctx.ob('C01.R7', g, 'timeout = given timeout or the default', okt, 'timeout is %s' % [U(t.value) for t in tdef], why)
    sname = U(ev[clock[0]].node.targets[0]) if clock else None
    calls = [c for c in ast.walk(g.node) if isinstance(c, ast.Call) and call_attr(c) == '_DispatchMethod']
    okc = len(calls) == 2 and all(tp in [U(a) for a in c.args] and sname in [U(a) for a in c.args] for c in calls)
    ctx.ob('C01.R7', g, 'both dispatch paths use that timeout and issue time', okc, '_DispatchMethod calls: %s' % [U(c) for c in calls], why)


def r8(ctx):
  prog = ctx.prog
  g = prog.func(D, 'MessageDispatcher.DispatchMethodCall')
  why = ('a call issued before the client finished opening is chained behind the open result; unless a timer was armed first, it cannot complete '
         'before open does, however long that takes (violates "completes no later than t+T ... including calls issued before open")')
  n = 0
  for ev, ex in enum_paths(ctx, g):
    park = [i for i, e in enumerate(ev) if e.kind == 'call' and call_attr(e.node) in ('ContinueWith', 'rawlink', 'Map')
            and ('_open_ar' in U(e.node.func) or '_open_ar' in resolved_text(ev, i, e.node.func.value))]
    if not park:
      continue
    n += 1
    armed = [i for i, e in enumerate(ev) if e.kind == 'call' and call_attr(e.node) in ('Schedule', 'CompleteIn', 'start_later') and i < park[0]]
    ctx.ob('C01.R8', g, 'parks behind open without a deadline timer', bool(armed),
           'the call is chained behind the open result with no timer armed at t+T', why)
  ctx.floor('C01.R8', 'parking paths in DispatchMethodCall', n, 1)
  # what such a parked call waits for is the open of the pools below; they connect once and report: no waiting by the clock (retry pauses) on that path
  sl = []
  for f_ in prog.all_funcs:
    if not f_.module.rel.startswith('scales/pool/'):
      continue
    for c_ in ast.walk(f_.node):
      if isinstance(c_, ast.Call) and U(c_.func).replace(' ', '') in ('gevent.sleep', 'sleep', 'time.sleep') and not (len(c_.args) == 0 or (isinstance(c_.args[0], ast.Constant) and c_.args[0].value == 0)):
        sl.append('%s: %s' % (f_.qualname, U(c_)))
  ctx.ob('C01.R8', g, 'the pools do not pause by the clock while opening or handing out a connection', not sl, 'timed sleeps in the pools: %s' % sl,
         'a call issued before the client finished opening is held until the pool open completes, with no deadline timer armed yet: every pause on that path (a retry delay after a refused '
         'connect) is added to the time after which the call can complete at all, beyond t+T')
  # a result that is created must be held by a name: `return AsyncResult(), None` hands out a result that nobody can ever complete, and whatever
  # is chained behind it (the client's open result, a waiter) is parked for good
  n_c = 0
  for f in prog.all_funcs:
    parents = {}
    for p_ in ast.walk(f.node):
      for ch in ast.iter_child_nodes(p_):
        parents[id(ch)] = p_
    for c in walk_no_nested(f.node):
      if isinstance(c, ast.Call) and not c.args and not c.keywords and (dotted(c.func) or '').split('.')[-1] == 'AsyncResult':
        n_c += 1
        par = parents.get(id(c))
        held = isinstance(par, ast.Assign) and par.value is c or (isinstance(par, ast.AnnAssign) and par.value is c) or (isinstance(par, ast.NamedExpr) and par.value is c)
        ctx.ob('C01.R8', f, 'a new AsyncResult is bound to a name (someone can complete it)', held,
               'AsyncResult() is created and handed on without anyone keeping a reference: it can never be set, so anything chained behind it waits for ever',
               'every wait on the way of a call must be bounded by something that is eventually signalled; a fresh, unreferenced result never is')
  ctx.floor('C01.R8', 'AsyncResult constructions in the package', n_c, 5)
