"""C03 Balancer sends each request to a least-loaded open member."""
import ast

from ..model import AnalysisError, dotted, unparse
from ..util import resolved_text, sym_env, sym_resolve, FACTS, FACTS_I, U, enum_paths, walk_no_nested, is_yield_call, Yields
from ..paths import call_attr, call_name

H = 'scales/loadbalancer/heap.py'
A = 'scales/loadbalancer/aperture.py'


def facts(ev, upto=None):
  return FACTS(ev if upto is None else ev[:upto])


def heap_calls(ev):
  """[(index, 'Swap'|'FixUp'|'FixDown', [arg texts])] for Heap.* calls on a path."""
  out = []
  for i, e in enumerate(ev):
    if e.kind == 'call' and call_name(e.node) in ('Heap.Swap', 'Heap.FixUp', 'Heap.FixDown'):
      env = sym_env(ev, i)
      args = []
      for a in e.node.args:
        t = U(sym_resolve(a, env)).replace(' ', '')
        # a local copy of an attribute (size = self._size) taken before other calls ran is not that attribute any more:
        # hooks called in between (aperture: _OnNodeDown adds a member) change it
        for nm in [x.id for x in ast.walk(a) if isinstance(x, ast.Name)]:
          defs = [j for j, d in enumerate(ev[:i]) if d.kind == 'stmt' and isinstance(d.node, ast.Assign) and any(U(tg) == nm for tg in d.node.targets)
                  and any(isinstance(x, ast.Attribute) and U(x.value) == 'self' for x in ast.walk(d.node.value))]
          if defs and any(c.kind == 'call' and U(c.node.func).startswith('self.') for c in ev[defs[-1] + 1:i]):
            t = 'stale(%s)' % t
        args.append(t)
      out.append((i, call_attr(e.node), args))
  return out


def size_steps(ev, delta):
  """Indices of the events that move self._size by delta: `self._size += 1` / `-= 1`, or `self._size = <local copy of self._size taken on this path, with no write in between> + / - 1`."""
  out = []
  want = 'self._size+1' if delta > 0 else 'self._size-1'
  for i, e in enumerate(ev):
    if e.kind != 'stmt':
      continue
    n = e.node
    if isinstance(n, ast.AugAssign) and U(n.target) == 'self._size' and isinstance(n.op, ast.Add if delta > 0 else ast.Sub) and U(n.value) == '1':
      out.append(i)
    elif isinstance(n, ast.Assign) and len(n.targets) == 1 and U(n.targets[0]) == 'self._size':
      if resolved_text(ev, i, n.value) in (want, '1+self._size' if delta > 0 else want):
        # the copy must still be current: no write of self._size since it was taken
        names = [x.id for x in ast.walk(n.value) if isinstance(x, ast.Name)]
        taken = [j for j, d in enumerate(ev[:i]) if d.kind == 'stmt' and isinstance(d.node, ast.Assign) and any(U(t) in names for t in d.node.targets)]
        start = taken[-1] if taken else 0
        if not any(d.kind == 'stmt' and isinstance(d.node, (ast.Assign, ast.AugAssign)) and any(U(t) == 'self._size' for t in (d.node.targets if isinstance(d.node, ast.Assign) else [d.node.target]))
                   for d in ev[start + 1:i]):
          out.append(i)
  return out


def is_last_slot(ev, slot):
  """What the branch conditions on a path say about `slot` (resolved text) versus the last live slot
  self._size: True (slot is the last one), False (it is not) or None (nothing tested)."""
  verdict = None
  for i, e in enumerate(ev):
    if e.kind != 'cond' or not isinstance(e.node, ast.Compare) or len(e.node.ops) != 1:
      continue
    env = sym_env(ev, i)
    l = U(sym_resolve(e.node.left, env)).replace(' ', '')
    r = U(sym_resolve(e.node.comparators[0], env)).replace(' ', '')
    op = type(e.node.ops[0]).__name__
    if (l, r) == ('self._size', slot):
      l, r = r, l
      op = {'Lt': 'Gt', 'Gt': 'Lt', 'LtE': 'GtE', 'GtE': 'LtE'}.get(op, op)
    if (l, r) != (slot, 'self._size'):
      continue
    truth = bool(e.info)
    # slot <= size always holds for a live node
    if op in ('Lt', 'NotEq'):
      verdict = not truth
    elif op in ('GtE', 'Eq'):
      verdict = truth
  return verdict


def vacated_slot_repair(ev, ops, slot, guard_needed):
  """ops: [(kind, args)] following Swap(heap, slot, size).  The element that lands in `slot` comes from the
  end of the array, i.e. from an unrelated subtree: it may be larger than a child (FixDown over the
  remaining size-1) or smaller than the new parent (FixUp).  Returns (ok, consumed, what)."""
  fd = ('FixDown', ['self._heap', slot, 'self._size-1'])
  fu = ('FixUp', ['self._heap', slot])
  got = []
  for o in ops[:2]:
    if o in (fd, fu) and o not in got:
      got.append(o)
    else:
      break
  last = is_last_slot(ev, slot)
  if fd not in got:
    return False, len(got), 'vacated slot is not sifted down over the remaining size-1 nodes'
  if fu in got:
    if guard_needed and last is not False:
      return False, len(got), 'FixUp of the vacated slot is not guarded by "slot is not the last one" (it would sift the departing node itself)'
    return True, len(got), ''
  if last is True:
    return True, len(got), ''       # the node was the last one: nothing moved into its slot
  return False, len(got), 'the node moved into the vacated slot is never sifted up (it comes from another subtree and may be smaller than its new parent)'


def hooks_before_repair(ev):
  """Calls to subclass hooks (self._On*) that run after a load write but before the heap repair that follows it:
  the aperture's hooks add/remove members, i.e. sift over a heap whose changed node is still misplaced."""
  out = []
  lw = load_writes(ev)
  hc = heap_calls(ev)
  for i, tgt, op, val in lw:
    if op == '=':
      continue
    rep = [j for j, k, a in hc if j > i]
    if not rep:
      continue
    for e in ev[i + 1:rep[0]]:
      if e.kind == 'call' and U(e.node.func).startswith('self._On'):
        out.append(U(e.node))
  return out


def load_writes(ev):
  out = []
  for i, e in enumerate(ev):
    if e.kind == 'stmt':
      st = e.node
      if isinstance(st, ast.AugAssign) and isinstance(st.target, ast.Attribute) and st.target.attr == 'load':
        out.append((i, U(st.target.value), '+=' if isinstance(st.op, ast.Add) else '-=' if isinstance(st.op, ast.Sub) else '?=', U(st.value)))
      elif isinstance(st, ast.Assign) and any(isinstance(t, ast.Attribute) and t.attr == 'load' for t in st.targets):
        t = [t for t in st.targets if isinstance(t, ast.Attribute) and t.attr == 'load'][0]
        out.append((i, U(t.value), '=', U(st.value)))
  return out


def alias_env(ev, upto):
  """local name -> expression text for simple assignments seen so far on the path"""
  env = {}
  for e in ev[:upto]:
    if e.kind == 'stmt' and isinstance(e.node, ast.Assign) and len(e.node.targets) == 1 and isinstance(e.node.targets[0], ast.Name):
      env[e.node.targets[0].id] = U(e.node.value).replace(' ', '')
  return env


def check(ctx):
  prog = ctx.prog
  ctx.rule('C03.R1', 'empty balancer: size == 0 -> the request goes to FailingMessageSink(NoMembersError) without touching heap or stack')
  ctx.rule('C03.R2', 'selection returns the heap root only, and only if its channel is open or it is already marked down (all members down); otherwise the root is marked down and selection repeats')
  ctx.rule('C03.R3', 'every change of a node load inside the lock is followed by the heap repair of matching direction (increase -> FixDown over the live size, decrease -> FixUp or the idle re-insertion sequence); add/remove keep the array and size consistent')
  ctx.rule('C03.R4', 'Node order is lexicographic (load, index); Idle < 0 < Penalty and Idle + Penalty >= 0, so a marked-down node sorts after every up node')
  ctx.rule('C03.R5', 'sift conformance of Heap.FixUp / FixDown / Swap')
  ctx.rule('C03.R6', 'lock discipline: heap state is written only under the heap lock, and nothing under the lock yields (L0)')
  ctx.decline('heap order as an invariant over all histories, uniformity of the random re-insertion and "fewest among all open members" as a global statement are not decided')
  r1(ctx)
  r2(ctx)
  r3(ctx)
  r4(ctx)
  r5(ctx)
  r6(ctx)
  from . import c12 as _c12o
  ctx.rule('C12.R1', 'shared with C12: the per-call timeout event keeps its value and its place on the message (the balancer gate polls it: a dead call that looks live is dispatched and charged '
                     'to a member through a sink stack nobody pops again)')
  _c12o.observable_truthy(ctx, 'C12.R1')
  load_write_repairs(ctx)
  from . import c12 as _c12, c05 as _c05
  ctx.rule('C12.R2', 'shared with C12: a request deferred until the balancer is open is dispatched only if its deadline has not fired by then (its drained stack would never release the member: '
                     'a phantom unit of load that skews every later choice)')
  _c12.r2(ctx)
  ctx.rule('C05.R3', 'shared with C05: an endpoint moves between the idle set and the heap as a pair of operations (an endpoint left in the idle set after it was activated gets a second, third ... node: its outstanding requests are split over several counters and it looks less loaded than it is)')
  _c05.r3(ctx)
  ctx.rule('C05.R2', 'shared with C05: an endpoint that is already a member is never added again (a second node for it splits its load over two heap entries: the member looks less loaded than it is)')
  _c05.r2(ctx)
  from . import c04
  ctx.rule('C04.R2', 'shared with C04: the balancer releases the member (load decrement, heap repair) before it forwards the response upward -- forwarding can re-enter the balancer')
  c04.r1_r2(ctx)


def load_write_repairs(ctx):
  """C03.R3 for every function of the balancers (not only the three known sites): the first heap operation after a change of
  <node>.load addresses that node's own slot -- <node>.index, or slot 1 when <node> is the root on that path."""
  prog = ctx.prog
  why = ('a node whose load changed must be sifted from ITS slot: a repair started at another slot (e.g. the root, copied from the selection code where the node is the root) '
         'leaves a penalised / loaded node above lighter children, and dispatch no longer reaches the least-loaded member')
  n_sites = 0
  for f in prog.all_funcs:
    if f.module.rel not in (H, 'scales/loadbalancer/aperture.py') or f.name in ('__init__', '__lt__'):
      continue
    if not any(isinstance(st, ast.AugAssign) and isinstance(st.target, ast.Attribute) and st.target.attr == 'load' for st in ast.walk(f.node)):
      continue
    for ev, ex in enum_paths(ctx, f):
      if ex[0] == 'raise':
        continue
      hcs = heap_calls(ev)
      for i, e in enumerate(ev):
        if not (e.kind == 'stmt' and isinstance(e.node, ast.AugAssign) and isinstance(e.node.target, ast.Attribute) and e.node.target.attr == 'load'):
          continue
        n_sites += 1
        node_txt = U(e.node.target.value)
        node_res = resolved_text(ev, i, e.node.target.value)
        nxt = [h for h in hcs if h[0] > i]
        if not nxt:
          # clamp / bookkeeping writes that no heap order depends on are followed by another load write before any repair; a path that
          # ends without any heap call after its last load write is judged by the site rules of R3
          continue
        _, op, args = nxt[0]
        slot_args = args[1:]
        own = any(('%s.index' % node_txt) in a or ('%s.index' % node_res) in a for a in slot_args)
        root = node_res.replace(' ', '') == 'self._heap[1]' and '1' in slot_args
        ctx.ob('C03.R3', f, 'the heap repair after a load change starts at the slot of the node whose load changed', own or root,
               '%s.load changes, then Heap.%s(%s): the repair does not address %s.index' % (node_txt, op, ', '.join(args), node_txt), why)
  ctx.floor('C03.R3', 'load writes followed on their path', n_sites, 3)


def r1(ctx):
  prog = ctx.prog
  f = prog.func(H, 'HeapBalancerSink._AsyncProcessRequestImpl')
  why = 'with no members at all the request fails immediately with a no-members error'
  n = 0
  for ev, ex in enum_paths(ctx, f):
    fs = facts(ev)
    if ('self._size==0', True) in fs or ('notself._size', True) in fs:
      n += 1
      fwd = [e.node for e in ev if e.kind == 'call' and call_attr(e.node) == 'AsyncProcessRequest']
      push = [e for e in ev if e.kind == 'call' and call_attr(e.node) == 'Push']
      get = [e for e in ev if e.kind == 'call' and '__Get' in U(e.node.func)]
      env = alias_env(ev, len(ev))
      ok = len(fwd) == 1 and not push and not get and env.get(U(fwd[0].func.value), U(fwd[0].func.value)) == 'self._no_members'
      ctx.ob('C03.R1', f, 'size 0: forwarded to the no-members sink only', ok, 'empty path: forwards %s, pushes %d, selections %d' % ([U(x.func) for x in fwd], len(push), len(get)), why)
  ctx.floor('C03.R1', 'empty-balancer paths', n, 1)
  init = prog.func(H, 'HeapBalancerSink.__init__')
  nm = [st for st in walk_no_nested(init.node) if isinstance(st, ast.Assign) and U(st.targets[0]) == 'self._no_members']
  ctx.ob('C03.R1', init, '_no_members = FailingMessageSink(NoMembersError)', len(nm) == 1 and U(nm[0].value).replace(' ', '') == 'FailingMessageSink(NoMembersError)', '_no_members is %s' % [U(x.value) for x in nm], why)


def r2(ctx):
  prog = ctx.prog
  g = prog.func(H, 'HeapBalancerSink.__Get')
  why = ('a request goes to the open member with the fewest outstanding requests: that is the heap root; a root whose channel is not open is '
         'marked down (penalised) so that the next root is tried, and is chosen only when it is already down, i.e. every member is down')
  outer = [n for n in g.node.body if isinstance(n, ast.While)]
  if len(outer) != 1:
    raise AnalysisError('C03.R2: selection loop not found')
  # the part of the loop body after the down-queue scan: from the read of heap[1]
  body = outer[0].body
  start = None
  for i, st in enumerate(body):
    if isinstance(st, ast.Assign) and U(st.value).replace(' ', '') == 'self._heap[1]':
      start = i
  if start is None:
    ctx.ob('C03.R2', g, 'candidate is the heap root', False, 'no read of self._heap[1] at the top level of the selection loop', why)
    return
  cand = U(body[start].targets[0])
  n_ret = n_down = 0
  for ev, ex in enum_paths(ctx, g, body=body[start:]):
    fs = facts(ev)
    r = [e for e in ev if e.kind == 'ret']
    open_f = ('%s.channel.state==ChannelState.Open' % cand, True) in fs
    down_f = ('%s.load>=0' % cand, True) in fs
    if r:
      n_ret += 1
      ok = U(r[-1].node.value) == cand and (open_f or down_f) and not load_writes(ev)
      ctx.ob('C03.R2', g, 'returns the root only if open or already down', ok, 'return under facts %s' % fs, why)
    else:
      n_down += 1
      lw = load_writes(ev)
      hc = heap_calls(ev)
      okw = len(lw) == 1 and lw[0][1:] == (cand, '+=', 'self.Penalty')
      okh = [(k, a) for _, k, a in hc] == [('FixDown', ['self._heap', '1', 'self._size'])] or [(k, a) for _, k, a in hc] == [('FixDown', ['self._heap', '%s.index' % cand, 'self._size'])]
      okq = any(e.kind == 'stmt' and isinstance(e.node, ast.Assign) and U(e.node.targets[0]) == 'self._downq' and U(e.node.value) == cand for e in ev) and \
        any(e.kind == 'stmt' and isinstance(e.node, ast.Assign) and U(e.node.targets[0]) == cand + '.downq' and U(e.node.value) == 'self._downq' for e in ev)
      cond_ok = ('%s.channel.state==ChannelState.Open' % cand, False) in fs and ('%s.load>=0' % cand, False) in fs
      hb = hooks_before_repair(ev)
      ctx.ob('C03.R3', g, 'no subclass hook runs between a load change and its heap repair', not hb,
             'hook(s) %s run while the penalised root is still in slot 1: the aperture hook adds a member and sifts it over the misplaced node, the later FixDown(1) starts from the new root and repairs nothing' % hb,
             'the heap root is the least-loaded open member only while heap order holds; every structural operation assumes an ordered heap')
      nd = [e for e in ev if e.kind == 'call' and U(e.node.func) == 'self._OnNodeDown']
      ctx.ob('C03.R2', g, 'a closed, not-yet-down root is penalised, sifted down and queued for resurrection, then selection repeats',
             okw and okh and okq and cond_ok and ex[0] in ('fall', 'continue') and len(nd) == 1,
             'mark-down path: load writes %s, heap ops %s, queued %s, facts %s' % (lw, hc, okq, fs), why)
  # every selection first walks the down queue: that walk is the only place where a member whose channel is open again gets its
  # penalty removed -- a selection that returns before it leaves recovered members penalised for as long as any healthy peer exists
  g_loops = [n_ for n_ in g.node.body if isinstance(n_, ast.While)]
  sel_body = g_loops[0].body if len(g_loops) == 1 else g.node.body
  n_sel = 0
  scanned_all = True
  for ev, ex in enum_paths(ctx, g, body=sel_body):
    if ex[0] != 'ret':
      continue
    n_sel += 1
    ri = [i for i, e in enumerate(ev) if e.kind == 'ret'][-1]
    # the scan is over when its cursor was found to be None: a loop-condition event on a name that was read from self._downq
    cur = [U(e.node.targets[0]) for e in ev[:ri] if e.kind == 'stmt' and isinstance(e.node, ast.Assign) and U(e.node.value) == 'self._downq' and isinstance(e.node.targets[0], ast.Name)]
    done = [e for e in ev[:ri] if e.kind == 'cond' and cur and any((t_ in ('%sisnotNone' % cur[0], cur[0]) and not v_) or (t_ in ('%sisNone' % cur[0], 'not%s' % cur[0]) and v_) for t_, v_ in FACTS([e]))]
    if not done:
      scanned_all = False
  ctx.ob('C03.R2', g, 'every selection walks the down queue before it returns a member', scanned_all and n_sel >= 1,
         'a return path of __Get does not pass the end of the down-queue walk: recovered members keep their penalty (and get no traffic) while a healthy peer sits at the root',
         'a member whose connection is up again is used again (C09: within one retry interval, without any change to the server set)')
  ctx.floor('C03.R2', 'selection return paths', n_ret, 2)
  ctx.floor('C03.R2', 'mark-down paths', n_down, 1)
  # down-queue scan: resurrect open nodes, unlink, keep the list intact
  scan = [n for n in body[:start] if isinstance(n, ast.While)]
  if len(scan) != 1:
    ctx.ob('C03.R2', g, 'down-queue scan present', False, 'down-queue scan loop not found', why)
    return
  heads = [st for st in body[:start] if isinstance(st, ast.Assign)]
  cur = prev = None
  for st in heads:
    if U(st.value) == 'self._downq':
      cur = U(st.targets[0])
    if U(st.value) == 'None':
      prev = U(st.targets[0])
  whyq = ('a member whose channel is open again must be marked up (penalty removed, sifted up) on the next dispatch, and unlinking one node must not '
          'drop the still-down nodes before it from the list: they would keep their penalty forever')
  seen = set()
  for ev, ex in enum_paths(ctx, g, body=scan[0].body, unroll=0):
    fs = facts(ev)
    lw = load_writes(ev)
    hc = [(k, a) for _, k, a in heap_calls(ev)]
    w = [(U(e.node.targets[0]), U(e.node.value).replace(' ', '')) for e in ev if e.kind == 'stmt' and isinstance(e.node, ast.Assign) and len(e.node.targets) == 1]
    tw = []
    for e in ev:
      if e.kind == 'stmt' and isinstance(e.node, ast.Assign) and isinstance(e.node.targets[0], ast.Tuple) and isinstance(e.node.value, ast.Tuple):
        tw.extend(zip([U(x) for x in e.node.targets[0].elts], [U(x) for x in e.node.value.elts]))
    relink_head = ('self._downq', cur) in w
    relink_prev = (prev + '.downq', cur) in w
    # the successor written into the link before the walk variable advances to it:  link = n.downq; n = n.downq
    adv_i = [i_ for i_, x_ in enumerate(w) if x_ == (cur, cur + '.downq')]
    if adv_i:
      relink_head = relink_head or any(x_ == ('self._downq', cur + '.downq') for x_ in w[:adv_i[0]])
      relink_prev = relink_prev or any(x_ == (prev + '.downq', cur + '.downq') for x_ in w[:adv_i[0]])
    prev_none = (prev + 'isNone', True) in fs
    if ('%s.index<0' % cur, True) in fs:
      seen.add('discarded')
      ok = not lw and not hc and (relink_head if prev_none else relink_prev)
      ctx.ob('C03.R2', g, 'removed node is unlinked from the down queue (predecessor kept)', ok, 'discard path writes %s' % w, whyq)
    elif ('%s.channel.state==ChannelState.Open' % cur, True) in fs:
      seen.add('resurrect')
      okw = len(lw) == 1 and lw[0][1:] == (cur, '-=', 'self.Penalty')
      okh = hc == [('FixUp', ['self._heap', '%s.index' % cur])]
      okl = (relink_head if prev_none else relink_prev) and (relink_head != relink_prev)
      clr = (cur + '.downq', 'None') in w
      ctx.ob('C03.R2', g, 'resurrected node: penalty removed, sifted up, unlinked with its predecessor relinked', okw and okh and okl and clr,
             'resurrect path: load %s, heap %s, writes %s (prev is None: %s)' % (lw, hc, w, prev_none), whyq)
    else:
      seen.add('keep')
      adv = (prev, cur) in tw and (cur, cur + '.downq') in tw or ((prev, cur) in w and (cur, cur + '.downq') in w)
      if not adv:
        # the same two moves with the successor read through the alias just made:  m = n; n = m.downq
        ws = [(U(e.node.targets[0]), resolved_text(ev, i_, e.node.value)) for i_, e in enumerate(ev) if e.kind == 'stmt' and isinstance(e.node, ast.Assign) and len(e.node.targets) == 1]
        adv = (prev, cur) in ws and (cur, cur + '.downq') in ws and [t for t, _ in ws] == [prev, cur]
      ctx.ob('C03.R2', g, 'still-down node stays queued and the scan advances', not lw and not hc and adv, 'keep path writes %s %s' % (w, tw), whyq)
  ctx.ob('C03.R2', g, 'down-queue scan handles removed / reopened / still-down nodes', seen == {'discarded', 'resurrect', 'keep'}, 'cases: %s' % sorted(seen), whyq)


def r3(ctx):
  prog = ctx.prog
  why = ('the heap root is the least-loaded member only while heap order holds: after a key grows the node must sift down over the whole live heap, '
         'after it shrinks it must sift up; a skipped or wrong-range repair hides a less-loaded member under a more-loaded one')
  f = prog.func(H, 'HeapBalancerSink._AsyncProcessRequestImpl')
  n = 0
  for ev, ex in enum_paths(ctx, f):
    lw = load_writes(ev)
    if not lw:
      continue
    n += 1
    hc = heap_calls(ev)
    i, tgt, op, val = lw[0]
    get = [e.node for e in ev[:i] if e.kind == 'stmt' and isinstance(e.node, ast.Assign) and '__Get' in U(e.node.value)]
    ok = len(lw) == 1 and (op, val) == ('+=', '1') and bool(get) and U(get[0].targets[0]) == tgt
    fd = [(j, a) for j, k, a in hc if k == 'FixDown' and j > i]
    rt = U(sym_resolve(ast.Name(id=tgt, ctx=ast.Load()), sym_env(ev, fd[0][0]))).replace(' ', '') if fd else tgt
    ok = ok and len(fd) == 1 and fd[0][1] in (['self._heap', '%s.index' % tgt, 'self._size'], ['self._heap', '%s.index' % rt, 'self._size'])
    # inside the lock region
    le = [j for j, e in enumerate(ev) if e.kind == 'with_enter' and '_heap_lock' in U(e.node.context_expr)]
    lx = [j for j, e in enumerate(ev) if e.kind == 'with_exit' and '_heap_lock' in U(e.node.context_expr)]
    ok = ok and bool(le) and bool(lx) and le[0] < i < fd[0][0] < lx[0]
    hb = hooks_before_repair(ev)
    ctx.ob('C03.R3', f, 'no subclass hook runs between a load change and its heap repair', not hb, 'hook(s) %s run before the repair of the dispatch increment' % hb, why)
    ctx.ob('C03.R3', f, 'dispatch: load += 1 on the selected node, then FixDown(heap, node.index, size) inside the lock', ok,
           'dispatch path: load writes %s, heap ops %s' % (lw, hc), why)
  ctx.floor('C03.R3', 'dispatch paths', n, 1)
  p = prog.func(H, 'HeapBalancerSink.__Put')
  node = p.params[1]
  seen = set()
  for ev, ex in enum_paths(ctx, p):
    fs = facts(ev)
    lw = [w for w in load_writes(ev) if w[2] != '=']
    hc = heap_calls(ev)
    ops = [(k, a) for _, k, a in hc]
    hb = hooks_before_repair(ev)
    ctx.ob('C03.R3', p, 'no subclass hook runs between a load change and its heap repair', not hb, 'hook(s) %s run before the repair of the completion decrement' % hb, why)
    okdec = len(lw) == 1 and lw[0][1:] == (node, '-=', '1') and (not hc or lw[0][0] < hc[0][0])
    ctx.ob('C03.R3', p, 'completion decrements the load once before any repair', okdec, 'completion path: load writes %s' % lw, why)
    removed = ('%s.index<0' % node, True) in fs
    idle = ('%s.load==self.Idle' % node, True) in fs
    if ('%s.load>self.Idle' % node, False) in fs and ('%s.load==self.Idle' % node, False) in fs:
      # trichotomy: the load was clamped to >= Idle just above, so "not > Idle and not == Idle" is infeasible
      clamp = [e for e in ev if e.kind == 'cond' and U(e.node).replace(' ', '') == '%s.load<self.Idle' % node]
      if clamp:
        continue
    if removed:
      seen.add('removed')
      ctx.ob('C03.R3', p, 'a node that left the heap is not repaired', not ops, 'heap ops on a removed node: %s' % ops, 'its index is -1: sifting it corrupts the heap')
    elif idle and ('self._size>1', True) in fs:
      seen.add('idle')
      i_ = '%s.index' % node
      j_ = 'random.randint(1,self._size)'
      ok = bool(ops) and ops[0] == ('Swap', ['self._heap', i_, 'self._size'])
      what = 'idle re-insertion ops: %s' % ops
      if ok:
        ok, used, w = vacated_slot_repair(ev, ops[1:], i_, guard_needed=True)
        what = w or what
        if ok:
          rest = ops[1 + used:]
          ok = rest == [('Swap', ['self._heap', j_, 'self._size']), ('FixUp', ['self._heap', j_]), ('FixUp', ['self._heap', 'self._size'])]
          what = 'idle re-insertion ops: %s' % ops
      ctx.ob('C03.R3', p, 'idle node is moved out (Swap, vacated slot sifted down over size-1 and up) and re-inserted at a random slot (Swap, FixUp, FixUp)', ok,
             what, why + '; both nodes moved by the second Swap have to be sifted up')
    else:
      seen.add('plain')
      ok = ops == [('FixUp', ['self._heap', '%s.index' % node])]
      ctx.ob('C03.R3', p, 'a decreased load is followed by FixUp(heap, node.index)', ok, 'repair after decrement: %s' % ops, why)
  ctx.ob('C03.R3', p, 'completion handles removed / idle / loaded nodes', seen == {'removed', 'idle', 'plain'}, 'cases: %s' % sorted(seen), why)
  add_remove(ctx)


def add_remove(ctx, rule='C03.R3'):
  prog = ctx.prog
  why = ('adding appends at position size+1 and sifts up; removing swaps the node into the last slot, repairs the vacated slot over the remaining '
         'size-1 nodes and then pops that last slot: a repair range that still includes the last slot can sift the departing node back in, so a '
         'different, live member is popped')
  a = prog.func(H, 'HeapBalancerSink._AddSink')
  for ev, ex in enum_paths(ctx, a):
    inc = size_steps(ev, +1)
    app = [i for i, e in enumerate(ev) if e.kind == 'call' and U(e.node.func) == 'self._heap.append']
    ops = [(k, a_) for _, k, a_ in heap_calls(ev)]
    mk = [e.node for e in ev if e.kind == 'call' and U(e.node.func) == 'self.Node']
    ok = len(inc) == 1 and len(app) == 1 and inc[0] < app[0] and ops == [('FixUp', ['self._heap', 'self._size'])] and len(mk) == 1
    if ok:
      args = [U(x).replace(' ', '') for x in mk[0].args]
      ok = len(args) == 4 and args[1] == 'self.Idle' and args[2] == 'self._size' and args[3] == a.params[1] and args[0] == a.params[2] + '()'
    ctx.ob(rule, a, 'add: size += 1, Node(factory(), Idle, size, endpoint) appended, FixUp(size)', ok, 'add path: size incs %s, appends %s, ops %s' % (inc, app, ops), why)
  r = prog.func(H, 'HeapBalancerSink._RemoveSink')
  n = 0
  for ev, ex in enum_paths(ctx, r):
    ret = [e for e in ev if e.kind == 'ret']
    rv = U(ret[-1].node.value) if ret else None
    ops = [(k, a_) for _, k, a_ in heap_calls(ev)]
    if rv == 'False':
      ctx.ob(rule, r, 'unknown/already removed endpoint: nothing changes', not ops and not any(e.kind == 'call' and U(e.node.func) == 'self._heap.pop' for e in ev), 'no-op path changed', why, nontrivial=False)
      continue
    n += 1
    env = alias_env(ev, len(ev))
    nd = [k for k, v in env.items() if v.startswith('self._FindNodeByEndpoint(')]
    ok = bool(nd)
    if ok:
      i_ = 'self._FindNodeByEndpoint(%s).index' % r.params[1]
      ok = bool(ops) and ops[0] == ('Swap', ['self._heap', i_, 'self._size'])
      what_r = 'remove path ops %s' % ops
      if ok:
        ok, used, w = vacated_slot_repair(ev, ops[1:], i_, guard_needed=False)
        what_r = w or what_r
        ok = ok and len(ops) == 1 + used
    pops = [i for i, e in enumerate(ev) if e.kind == 'call' and U(e.node.func) == 'self._heap.pop' and not e.node.args]
    dec = size_steps(ev, -1)
    hcs = heap_calls(ev)
    ok = ok and len(pops) == 1 and len(dec) == 1 and hcs and hcs[-1][0] < pops[0] < dec[0]
    mark = [e for e in ev if e.kind == 'stmt' and isinstance(e.node, ast.Assign) and nd and U(e.node.targets[0]) == nd[0] + '.index' and U(e.node.value) == '-1']
    ok = ok and len(mark) == 1
    ctx.ob(rule, r, 'remove: Swap(i, size), vacated slot sifted down over size-1 and up, pop, size -= 1, index = -1', ok,
           '%s; ops %s, pops %s, size decs %s' % (what_r if nd else 'node lookup changed', ops, pops, dec), why)
  ctx.floor(rule, 'remove paths', n, 1)
  find_node(ctx, rule)


def find_node(ctx, rule):
  """_FindNodeByEndpoint: a member is found by endpoint equality over the heap array; when the search uses next(..., D) the "not found" value D
  is exactly what the guard in front of `self._heap[i]` excludes (otherwise an unknown endpoint yields some unrelated member)."""
  prog = ctx.prog
  why = ('removing / closing a member starts from the node found for its endpoint: for an endpoint that is not on the heap (unknown, already removed, '
         'or idle in the aperture) the lookup must say "none", not hand out another member')
  fn = prog.func(H, 'HeapBalancerSink._FindNodeByEndpoint')
  t = U(fn.node).replace(' ', '')
  ctx.ob(rule, fn, 'nodes are found by endpoint equality over the heap array', '.endpoint==%s' % fn.params[1] in t and 'self._heap' in t, '_FindNodeByEndpoint changed', why, nontrivial=False)
  nx = [st for st in walk_no_nested(fn.node) if isinstance(st, ast.Assign) and len(st.targets) == 1 and isinstance(st.targets[0], ast.Name) and isinstance(st.value, ast.Call)
        and isinstance(st.value.func, ast.Name) and st.value.func.id == 'next' and len(st.value.args) == 2]
  if len(nx) != 1:
    return
  v = nx[0].targets[0].id
  try:
    D = ast.literal_eval(nx[0].value.args[1])
  except Exception:
    D = None
  for ev, ex in enum_paths(ctx, fn):
    r = [e for e in ev if e.kind == 'ret']
    if not r or r[-1].node.value is None:
      continue
    val = sym_resolve(r[-1].node.value, sym_env(ev, ev.index(r[-1])))
    subs = [x for x in ast.walk(val) if isinstance(x, ast.Subscript) and U(x.value) == 'self._heap']
    if not subs:
      continue
    fs = FACTS(ev)
    idx_is_v = any(U(r_.slice) == v for e in ev if e.kind == 'ret' for r_ in ast.walk(e.node) if isinstance(r_, ast.Subscript) and U(r_.value) == 'self._heap')
    excl = ('%s==%r' % (v, D), False) in fs or ('%s!=%r' % (v, D), True) in fs
    if D == 0:
      excl = excl or (v, True) in fs or ('%s>0' % v, True) in fs or ('%s>=1' % v, True) in fs or ('not%s' % v, False) in fs
    if isinstance(D, int) and D < 0:
      excl = excl or ('%s<0' % v, False) in fs or ('%s>=0' % v, True) in fs
    ctx.ob(rule, fn, 'the node handed out is the one the search found: the not-found default is excluded first', idx_is_v and excl and D is not None,
           'a path returns %s although %s may still be the not-found default %r of the search (facts %s)' % (U(r[-1].node.value), v, D, sorted(c for c, t_ in fs if v in c)), why)


def r4(ctx):
  prog = ctx.prog
  hb = prog.cls(H, 'HeapBalancerSink')
  why = ('load = Idle + outstanding (+ Penalty while down): Idle must be negative and Idle + Penalty non-negative so that "load >= 0" means "marked down" '
         'and every down node sorts after every up node')
  try:
    idle = prog.const_eval(hb.consts['Idle'], hb.module, hb)
    pen = prog.const_eval(hb.consts['Penalty'], hb.module, hb)
  except (ValueError, KeyError):
    raise AnalysisError('C03.R4: Idle/Penalty constants not foldable')
  ctx.ob('C03.R4', hb, 'Idle < 0', idle < 0, 'Idle = %s' % idle, why)
  ctx.ob('C03.R4', hb, 'Penalty > 0', pen > 0, 'Penalty = %s' % pen, why)
  ctx.ob('C03.R4', hb, 'Idle + Penalty >= 0', idle + pen >= 0, 'Idle + Penalty = %s' % (idle + pen), why + ' (otherwise a freshly marked-down idle node still looks up and is selected again and again)')
  ctx.ob('C03.R4', hb, 'an up node stays negative for any realistic load', idle + 2 ** 20 < 0, 'Idle = %s' % idle, why, nontrivial=False)
  lt = prog.func(H, 'HeapBalancerSink.Node.__lt__')
  o = lt.params[1]
  seen = {}
  for ev, ex in enum_paths(ctx, lt):
    fs = facts(ev)
    r = [e for e in ev if e.kind == 'ret']
    v = U(r[-1].node.value).replace(' ', '') if r else None
    gt = ('self.load>%s.load' % o, True) in fs or ('%s.load<self.load' % o, True) in fs
    ltc = ('self.load<%s.load' % o, True) in fs or ('%s.load>self.load' % o, True) in fs
    eqf = ('self.load==%s.load' % o, False) in fs or ('self.load!=%s.load' % o, True) in fs or ('%s.load==self.load' % o, False) in fs
    if gt:
      seen['greater'] = v == 'False'
    elif ltc:
      seen['less'] = v == 'True'
    elif eqf:
      # loads differ: the answer is the comparison of the loads itself
      seen['greater'] = seen['less'] = v in ('self.load<%s.load' % o, '%s.load>self.load' % o)
    else:
      seen['equal'] = v in ('self.index<%s.index' % o, '%s.index>self.index' % o)
  body_ = [x for x in lt.node.body if not (isinstance(x, ast.Expr) and isinstance(x.value, ast.Constant))]
  if len(body_) == 1 and isinstance(body_[0], ast.Return):
    v = U(body_[0]).replace(' ', '')
    if v in ('return(self.load,self.index)<(%s.load,%s.index)' % (o, o), 'return(%s.load,%s.index)>(self.load,self.index)' % (o, o)):
      seen = {'tuple': True}       # the same order, spelled as a tuple comparison
  ctx.ob('C03.R4', lt, 'Node order is lexicographic on (load, index)', bool(seen) and all(seen.values()) and (len(seen) == 3 or 'tuple' in seen), 'order cases: %s' % seen,
         'the heap is ordered by load first; comparing index first (or reversing a branch) makes the root an arbitrary node')


def swap_effect(fnode, h, i, j):
  """Symbolic execution of the straight-line body of Swap(h, i, j): afterwards slot i holds the old node of slot j and vice
  versa, and each of the two nodes has its .index set to the slot it now occupies."""
  slot = {i: 'A', j: 'B'}
  env = {}
  index = {}

  class Bad(Exception):
    pass

  def ev(e):
    if isinstance(e, ast.Subscript) and isinstance(e.value, ast.Name) and e.value.id == h and isinstance(e.slice, ast.Name) and e.slice.id in slot:
      return slot[e.slice.id]
    if isinstance(e, ast.Name):
      if e.id in env:
        return env[e.id]
      if e.id in (i, j):
        return e.id
    if isinstance(e, ast.Tuple):
      return tuple(ev(x) for x in e.elts)
    if isinstance(e, ast.Attribute) and e.attr == 'index':
      return index.get(ev(e.value), '?')
    raise Bad()

  def st(t, v):
    if isinstance(t, ast.Name):
      env[t.id] = v
    elif isinstance(t, ast.Subscript) and isinstance(t.value, ast.Name) and t.value.id == h and isinstance(t.slice, ast.Name) and t.slice.id in slot:
      slot[t.slice.id] = v
    elif isinstance(t, ast.Attribute) and t.attr == 'index':
      index[ev(t.value)] = v
    elif isinstance(t, (ast.Tuple, ast.List)) and isinstance(v, tuple) and len(v) == len(t.elts):
      # the right-hand side is evaluated completely first; targets left to right
      for x, y in zip(t.elts, v):
        st(x, y)
    else:
      raise Bad()
  try:
    for s_ in fnode.body:
      if isinstance(s_, ast.Expr) and isinstance(s_.value, ast.Constant):
        continue
      if isinstance(s_, ast.Pass) or (isinstance(s_, ast.If) and all(isinstance(x, ast.Pass) for x in s_.orelse) and all(isinstance(x, ast.Raise) for x in s_.body)):
        continue
      if isinstance(s_, ast.Assign):
        v = ev(s_.value)
        for t in s_.targets:
          st(t, v)
        continue
      raise Bad()
  except Bad:
    return False
  return slot == {i: 'B', j: 'A'} and index == {'B': i, 'A': j}


def r5(ctx):
  prog = ctx.prog
  why = 'the sift routines must implement a binary min-heap on a 1-based array: parent of i is i//2, children are 2i and 2i+1 bounded by the live size'
  sw = prog.func(H, 'Heap.Swap')
  h, i, j = sw.params
  ok = swap_effect(sw.node, h, i, j)
  ctx.ob('C03.R5', sw, 'Swap exchanges both slots and updates both index fields', ok, 'Swap body changed', 'node.index must always be the node position: repairs and removal start from it')
  sift_rules(ctx, why)


def _lowered_body(f):
  """Copy of the function body with every conditional expression assignment/return lowered to if statements, so that
  the path enumerator sees the choice (the reference tree writes the child choice of FixDown as a conditional expression)."""
  import copy
  from ..normalize import lower_new_ifexps
  node = copy.deepcopy(f.node)
  lower_new_ifexps(node, set(), {})
  return node.body


def _resolved_closure(ev, k, i):
  """idiom closure of the branch facts before event k, with local aliases resolved and index expressions normalised"""
  from ..util import equiv_facts
  out = set()
  for idx, e in enumerate(ev[:k]):
    if e.kind != 'cond':
      continue
    node = sym_resolve(e.node, sym_env(ev, idx))
    for c_, t_ in equiv_facts(node, bool(e.info)):
      out.add((_norm_idx(c_, i), t_))
    for c_, t_ in FACTS([e]):
      out.add((_norm_idx(c_, i), t_))
  return out


def _step_env(ev, s, k):
  """Symbolic environment for the step ev[s:k] of a walk: names bound inside the step are resolved over the values at the start of the
  step; a name bound before the step is resolved only when nothing its definition reads has been rebound since (a value computed from
  the walk variable before the loop is stale in the second iteration and stays an opaque name)."""
  from ..paths import written_names
  env = sym_env(ev[s:], k - s)
  if s > 0:
    pre = {}
    bound_at = {}
    for idx, e in enumerate(ev[:s]):
      if e.kind == 'stmt' and isinstance(e.node, ast.Assign) and len(e.node.targets) == 1 and isinstance(e.node.targets[0], ast.Name):
        nm = e.node.targets[0].id
        pre[nm] = e.node.value
        bound_at[nm] = idx
      elif e.kind in ('stmt', 'for_iter', 'with_enter'):
        for w in written_names(e.node):
          pre.pop(w, None)
    for nm, val in pre.items():
      if nm in env:
        continue
      reads = set(x.id for x in ast.walk(val) if isinstance(x, ast.Name))
      stale = False
      for idx in range(bound_at[nm] + 1, s):
        e = ev[idx]
        if e.kind in ('stmt', 'for_iter', 'with_enter') and set(written_names(e.node)) & (reads | {nm}):
          stale = True
      if not stale and all(r not in pre or r == nm for r in reads):
        env[nm] = val
  return env


def _step_text(ev, s, k, node):
  return U(sym_resolve(node, _step_env(ev, s, k))).replace(' ', '')


def _resolved_closure_step(ev, s, k, i):
  """like _resolved_closure for the step ev[s:k]: only the branch facts established inside the step count"""
  from ..util import equiv_facts
  out = set()
  for idx in range(s, k):
    e = ev[idx]
    if e.kind != 'cond':
      continue
    node = sym_resolve(e.node, _step_env(ev, s, idx))
    for c_, t_ in equiv_facts(node, bool(e.info)):
      out.add((_norm_idx(c_, i), t_))
    for c_, t_ in FACTS([e]):
      out.add((_norm_idx(c_, i), t_))
  return out


def _foreign_comparisons(ctx, f, h, i, allowed):
  """Heap slots read by the comparisons of each step of a sift walk, other than the allowed ones (normalised over the value the walk
  variable has at the start of that step)."""
  bad = set()
  for ev, ex in enum_paths(ctx, f, body=_lowered_body(f), unroll=2):
    s0 = 0
    for idx, e in enumerate(ev):
      if e.kind == 'stmt' and ((isinstance(e.node, ast.Assign) and any(U(t) == i for t in e.node.targets)) or (isinstance(e.node, ast.AugAssign) and U(e.node.target) == i)):
        s0 = idx + 1
        continue
      if e.kind != 'cond':
        continue
      node = sym_resolve(e.node, _step_env(ev, s0, idx))
      for sub in ast.walk(node):
        if isinstance(sub, ast.Subscript) and U(sub.value) == h:
          t = _norm_idx(U(sub.slice), i)
          if t not in allowed:
            bad.add(t)
  return bad


def _after_step(ev, k, i):
  """index just after the first rebinding of the walk variable i that follows the swap at event k"""
  for idx in range(k + 1, len(ev)):
    e = ev[idx]
    if e.kind == 'stmt' and ((isinstance(e.node, ast.Assign) and any(U(t) == i for t in e.node.targets)) or
                             (isinstance(e.node, ast.AugAssign) and U(e.node.target) == i)):
      return idx + 1
  return k + 1


def _norm_idx(text, i):
  """canonical spelling of index expressions over the loop variable i: parent P, left L, right R"""
  t = text.replace(' ', '')
  for a, b in (('%s//2' % i, 'P'), ('%s>>1' % i, 'P'), ('int(%s/2)' % i, 'P'),
               ('2*%s+1' % i, 'R'), ('%s*2+1' % i, 'R'), ('(%s<<1)+1' % i, 'R'), ('%s<<1|1' % i, 'R'),
               ('2*%s' % i, 'L'), ('%s*2' % i, 'L'), ('%s<<1' % i, 'L')):
    t = t.replace(a, b)
  return t


def sift_rules(ctx, why):
  """FixUp / FixDown decided on the paths of one step: which comparison licenses a swap, with what, and where the walk continues.
  Index expressions are resolved through local assignments and normalised (parent P = i//2, children L = 2i, R = 2i+1)."""
  prog = ctx.prog
  # ---- FixUp: a swap happens only under  i != 1  and  heap[i] < heap[P];  it swaps i with P and continues from P
  fu = prog.func(H, 'Heap.FixUp')
  h, i = fu.params
  n_sw = 0
  okf = True
  whatf = ''
  for ev, ex in enum_paths(ctx, fu, body=_lowered_body(fu), unroll=2):
    sw = [k for k, e in enumerate(ev) if e.kind == 'call' and call_name(e.node) == 'Heap.Swap']
    if not sw:
      continue
    s0 = 0
    for k in sw:
      # every step of the walk is judged over the value the walk variable has when the step starts
      n_sw += 1
      closure = _resolved_closure_step(ev, s0, k, i)
      args = [_norm_idx(_step_text(ev, s0, k, a), i) for a in ev[k].node.args]
      not_root = ('%s!=1' % i, True) in closure or ('%s>1' % i, True) in closure or ('%s==1' % i, False) in closure
      smaller = ('%s[%s]<%s[P]' % (h, i, h), True) in closure or ('%s[P]>%s[%s]' % (h, h, i), True) in closure
      swap_ok = args in ([h, i, 'P'], [h, 'P', i])
      # where the walk continues: the value of i after the swap on this path
      nxt_i = _after_step(ev, k, i)
      after = _norm_idx(_step_text(ev, s0, nxt_i, ast.Name(id=i, ctx=ast.Load())), i)
      nxt = [e for e in ev[k:] if e.kind == 'call' and call_name(e.node) == 'Heap.FixUp']
      step_ok = after == 'P' or (nxt and [_norm_idx(_step_text(ev, s0, ev.index(nxt[0]), a), i) for a in nxt[0].node.args] == [h, 'P'])
      if not (not_root and smaller and swap_ok and step_ok):
        okf = False
        whatf = 'swap path: not-root=%s child<parent=%s swap(i, parent)=%s continues from parent=%s (args %s, next i = %s)' % (not_root, smaller, swap_ok, bool(step_ok), args, after)
      s0 = nxt_i
  bad = _foreign_comparisons(ctx, fu, h, i, {i, 'P'})
  ctx.ob('C03.R5', fu, 'FixUp: while i != 1 and heap[i] < heap[i//2]: swap, continue from the parent', okf and n_sw >= 1, whatf or 'no swap path found', why)
  ctx.ob('C03.R5', fu, 'FixUp: every step compares the current position with its own parent', not bad,
         'a step compares heap slots %s (walk variable %s): an index computed before the walk moved is stale' % (sorted(bad), i), why)
  # ---- FixDown: children bounded by j; the smaller existing child m; swap only if heap[m] < heap[i]; continue from m
  fd = prog.func(H, 'Heap.FixDown')
  h, i, j = fd.params
  n_sw = 0
  okd = True
  whatd = ''
  kinds = set()
  for ev, ex in enum_paths(ctx, fd, body=_lowered_body(fd), unroll=2):
    sw = [k for k, e in enumerate(ev) if e.kind == 'call' and call_name(e.node) == 'Heap.Swap']
    if not sw:
      continue
    s0 = 0
    for k in sw:
      n_sw += 1
      closure = _resolved_closure_step(ev, s0, k, i)

      def F(text, truth=True):
        return (text, truth) in closure
      args = [_norm_idx(_step_text(ev, s0, k, a), i) for a in ev[k].node.args]
      m = [a for a in args[1:] if a != i]
      m = m[0] if len(m) == 1 else None
      has_child = F('%s<L' % j, False) or F('%s>=L' % j) or F('L<=%s' % j) or F('L>%s' % j, False)
      only_left = F('%s==L' % j) or F('L==%s' % j)
      left_smaller = F('%s[L]<%s[R]' % (h, h)) or F('%s[R]>%s[L]' % (h, h))
      not_left_smaller = F('%s[L]<%s[R]' % (h, h), False) or F('%s[R]>%s[L]' % (h, h), False) or F('%s[L]>=%s[R]' % (h, h)) or F('%s[R]<=%s[L]' % (h, h))
      two_children = F('%s==L' % j, False) or F('L==%s' % j, False) or F('%s!=L' % j) or F('%s>L' % j) or F('%s>=R' % j)
      if m == 'L':
        choice_ok = only_left or left_smaller
      elif m == 'R':
        choice_ok = two_children and not_left_smaller
      else:
        choice_ok = False
      child_smaller = m is not None and (F('%s[%s]<%s[%s]' % (h, m, h, i)) or F('%s[%s]>%s[%s]' % (h, i, h, m)))
      swap_ok = m is not None and args[0] == h and i in args[1:]
      nxt_i = _after_step(ev, k, i)
      after = _norm_idx(_step_text(ev, s0, nxt_i, ast.Name(id=i, ctx=ast.Load())), i)
      nxt = [e for e in ev[k:] if e.kind == 'call' and call_name(e.node) == 'Heap.FixDown']
      step_ok = after == m or (nxt and [_norm_idx(_step_text(ev, s0, ev.index(nxt[0]), a), i) for a in nxt[0].node.args] == [h, m, j])
      kinds.add(m)
      if not (has_child and choice_ok and child_smaller and swap_ok and step_ok):
        okd = False
        whatd = 'swap path with child %s: children exist=%s choice justified=%s child<node=%s swap(i, child)=%s continues from child=%s' % (m, has_child, choice_ok, child_smaller, swap_ok, bool(step_ok))
      s0 = nxt_i
  bad = _foreign_comparisons(ctx, fd, h, i, {i, 'L', 'R'})
  ctx.ob('C03.R5', fd, 'FixDown: every step compares the current position with its own children', not bad,
         'a step compares heap slots %s (walk variable %s): an index computed before the walk moved is stale' % (sorted(bad), i), why)
  ctx.ob('C03.R5', fd, 'FixDown: stop without children, pick the smaller existing child bounded by j, swap if child < node, continue from it',
         okd and kinds == {'L', 'R'}, whatd or 'swap paths found for children %s (need both)' % sorted(k_ for k_ in kinds if k_), why)


def lock_context(prog):
  """Functions of the balancers whose every execution holds the heap lock."""
  hb = prog.cls(H, 'HeapBalancerSink')
  locked = set()
  for c in [hb] + prog.subclasses(hb, strict=True):
    for m in c.methods.values():
      if any(d == 'synchronized' for d in m.decorators):
        locked.add(id(m.node))
  return locked


def _inside_lock(fnode, target):
  """Is `target` lexically inside a `with self._heap_lock` of fnode?"""
  for w in ast.walk(fnode):
    if isinstance(w, ast.With) and any('_heap_lock' in U(i.context_expr) for i in w.items):
      if any(x is target for x in ast.walk(w)):
        return True
  return False


def r6(ctx):
  prog = ctx.prog
  hb = prog.cls(H, 'HeapBalancerSink')
  why = ('heap, size, loads, indexes and the down queue are changed in several steps; they are only consistent if every writer holds the heap lock '
         'and no step in between can yield to another greenlet')
  locked = lock_context(prog)
  funcs = [f for f in prog.all_funcs if f.module.rel in (H, A)]
  # call sites per callee name (self.X / Heap.X) with lock status
  def callers_locked(name, seen=None):
    seen = seen or set()
    if name in seen:
      return True
    seen = seen | {name}
    sites = []
    for f in funcs:
      for c in ast.walk(f.node):
        if isinstance(c, ast.Call) and isinstance(c.func, ast.Attribute) and c.func.attr == name and U(c.func.value) in ('self', 'Heap', 'super(ApertureBalancerSink, self)', 'super(HeapBalancerSink, self)'):
          sites.append((f, c))
    if not sites:
      return False
    for f, c in sites:
      top = f
      while top.parent is not None:
        top = top.parent
      if id(top.node) in locked or _inside_lock(top.node, c):
        continue
      if f.name == name:
        continue
      if not callers_locked(top.name, seen):
        return False
    return True
  protected_attr = {'load', 'index', 'downq'}
  n = 0
  for f in funcs:
    top = f
    while top.parent is not None:
      top = top.parent
    if f.name == '__init__' or (f.cls is not None and f.cls.name == 'Node'):
      continue
    writes = []
    for st in walk_no_nested(f.node):
      tg = []
      if isinstance(st, ast.Assign):
        for t in st.targets:
          tg.extend(t.elts if isinstance(t, ast.Tuple) else [t])
      elif isinstance(st, ast.AugAssign):
        tg = [st.target]
      for t in tg:
        u = U(t)
        if u in ('self._size', 'self._downq', 'self._heap') or (isinstance(t, ast.Attribute) and t.attr in protected_attr and not u.startswith('self.')) or \
            (isinstance(t, ast.Subscript) and U(t.value) in ('self._heap', 'heap')):
          writes.append((st, u))
      if isinstance(st, ast.Expr) and isinstance(st.value, ast.Call) and U(st.value.func) in ('self._heap.append', 'self._heap.pop', 'self._heap.insert', 'self._heap.remove'):
        writes.append((st, U(st.value.func)))
    for st, u in writes:
      n += 1
      ok = id(top.node) in locked or _inside_lock(top.node, st) or callers_locked(top.name)
      ctx.ob('C03.R6', f, 'write to %s happens under the heap lock' % u, ok, '%s is written in %s outside the heap lock (and not only called from locked code)' % (u, f.qualname), why)
  ctx.floor('C03.R6', 'protected writes', n, 15)
  # L0: nothing under the lock yields
  universe = lambda t: not t.module.rel.startswith(('scales/kafka', 'scales/http', 'scales/redis', 'scales/thrifthttp')) and not (t.cls is not None and t.cls.name in ('ServerSet', 'ZooKeeperServerSetProvider', '_ProxyBase'))
  ys = Yields(prog, universe)
  regions = 0
  for f in funcs:
    top = f
    while top.parent is not None:
      top = top.parent
    bodies = []
    if id(f.node) in locked:
      bodies.append(f.node)
    for w in walk_no_nested(f.node):
      if isinstance(w, ast.With) and any('_heap_lock' in U(i.context_expr) for i in w.items):
        bodies.append(w)
    for b in bodies:
      regions += 1
      wit = None
      for c in (walk_no_nested(b) if b is not f.node else walk_no_nested(f.node)):
        if isinstance(c, ast.Call):
          r = ys.call_yields(c, f)
          if r:
            wit = (c, r)
            break
      ctx.ob('C03.R6', f, 'L0: lock region at %s does not yield' % ('function' if b is f.node else 'with-block'), wit is None,
             'call %s under the heap lock can reach the yield %s in %s' % (U(wit[0]) if wit else '', U(wit[1][1]) if wit else '', wit[1][0].qualname if wit else ''),
             why + ' (a lock held across a greenlet switch is contended: other requests see a half-repaired heap or block)')
  ctx.floor('C03.R6', 'lock regions', regions, 4)
