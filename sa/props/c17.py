"""C17 Async combinators resolve correctly for every completion order."""
import ast

from ..model import AnalysisError, dotted, unparse
from ..util import resolved_text, FACTS, FACTS_I, U, enum_paths, walk_no_nested
from ..paths import call_attr, call_name

A = 'scales/asynchronous.py'


def facts(ev):
  return FACTS(ev)


def has(fs, text, truth):
  return (text, truth) in fs


def calls(ev, attr):
  return [e.node for e in ev if e.kind == 'call' and call_attr(e.node) == attr]


def check(ctx):
  prog = ctx.prog
  ctx.rule('C17.R1', 'polarity discipline: a resolution that could follow one of the opposite polarity is guarded by not ret.ready(); WhenAny fails only at countdown zero, succeeds only with a successful input')
  ctx.rule('C17.R2', 'an input returned directly by WhenAny is filtered by successful()')
  ctx.rule('C17.R3', 'every input is linked unconditionally; countdown starts at len(inputs) and drops once per completion; WhenAll binds the slot index eagerly')
  ctx.rule('C17.R4', 'ContinueWith sets its result exactly once per path; Map applies fn only to successes; Unwrap classifies ready/exception/nested/plain exhaustively')
  ctx.decline('gevent link ordering and scheduling are not decided')
  when_any(ctx)
  when_all(ctx)
  continue_with(ctx)
  unwrap(ctx)
  primitives(ctx)


_GEVENT_PRIMITIVES = ('set', 'set_exception', 'get', 'get_nowait', 'wait', 'ready', 'successful', 'rawlink', 'unlink', 'link', 'value', 'exception', 'exc_info',
                      '__call__', '_notify_links', '_raise_exception')


def primitives(ctx):
  """The combinators report success and failure through gevent's own set / set_exception and read them back through value / exception: the package's
  AsyncResult class hands them on unchanged (it overrides none of them, except by pure delegation)."""
  prog = ctx.prog
  c = prog.cls(A, 'AsyncResult')
  why = ('WhenAny/WhenAll/ContinueWith/Unwrap/Map deliver "the failure" by calling set_exception with the very exception object they observed and read it back through '
         '.exception: an override that converts, wraps or filters what it is given changes the failure every combinator reports')
  for k in prog.mro(c):
    for nm, m in sorted(k.methods.items()):
      if nm not in _GEVENT_PRIMITIVES:
        continue
      body = [st for st in m.node.body if not (isinstance(st, ast.Expr) and isinstance(st.value, ast.Constant))]
      ps = m.params[1:]
      deleg = False
      if len(body) == 1 and isinstance(body[0], (ast.Return, ast.Expr)) and isinstance(body[0].value, ast.Call):
        cl = body[0].value
        fn = U(cl.func).replace(' ', '')
        deleg = (fn.startswith('super(') and fn.endswith(').' + nm) and [U(a) for a in cl.args] + [U(kw.value) for kw in cl.keywords] == ps) or \
                (fn.endswith('.' + nm) and [U(a) for a in cl.args][1:] + [U(kw.value) for kw in cl.keywords] == ps and [U(a) for a in cl.args][:1] == ['self'])
      ctx.ob('C17.R4', m, 'gevent primitive %s is inherited unchanged' % nm, deleg, '%s overrides gevent.event.AsyncResult.%s' % (k.name, nm), why)
  ctx.ob('C17.R4', c, 'AsyncResult derives from gevent.event.AsyncResult', any('AsyncResult' in U(b) for b in c.node.bases), 'bases are %s' % [U(b) for b in c.node.bases], why,
         nontrivial=False)


def _ret_name(f):
  """name of the fresh combined AsyncResult created in f (ret = AsyncResult())"""
  for st in walk_no_nested(f.node):
    if isinstance(st, ast.Assign) and isinstance(st.value, ast.Call) and U(st.value.func) == 'AsyncResult' and isinstance(st.targets[0], ast.Name):
      return st.targets[0].id
  raise AnalysisError('no fresh AsyncResult() in %s' % f.qualname)


def _link_rules(ctx, f, ars, cbname):
  why = 'an input that is not linked never reports its completion: the countdown cannot reach zero (or a success is missed) and the combined result hangs'
  loops = [n for n in f.node.body if isinstance(n, ast.For)]
  links = [c for c in walk_no_nested(f.node) if isinstance(c, ast.Call) and call_attr(c) == 'rawlink']
  ok = len(loops) >= 1 and len(links) == 1
  lp = None
  if ok:
    lp = [l for l in loops if any(c is links[0] for c in ast.walk(l))]
    ok = len(lp) == 1
  if ok:
    lp = lp[0]
    it = U(lp.iter).replace(' ', '')
    ok = it in (ars, 'enumerate(%s)' % ars, 'list(%s)' % ars)
    # unconditional: the rawlink statement is directly in the loop body
    ok = ok and any(isinstance(st, ast.Expr) and st.value is links[0] for st in lp.body)
  ctx.ob('C17.R3', f, 'every input is rawlinked unconditionally', bool(ok),
         'rawlink is not called once for each element of %s directly in the loop' % ars, why)
  return lp, (links[0] if links else None)


def when_any(ctx):
  prog = ctx.prog
  f = prog.func(A, 'AsyncResult.WhenAny')
  ars = f.params[0]
  ret = _ret_name(f)
  cb = f.nested.get('complete')
  if cb is None:
    cands = list(f.nested.values())
    if len(cands) != 1:
      raise AnalysisError('WhenAny callback not found')
    cb = cands[0]
  arp = cb.params[-1]
  # R2: direct returns of inputs
  why2 = 'a ready-but-failed input is not "the first input to succeed": returning it reports failure although another input may still succeed'
  n = 0
  from ..util import sym_env, sym_resolve
  seen_keys = set()
  for ev, ex in enum_paths(ctx, f):
    if ex[0] != 'ret':
      continue
    ri = [i for i, e in enumerate(ev) if e.kind == 'ret'][-1]
    r = ev[ri].node
    if r.value is None or (isinstance(r.value, ast.Name) and r.value.id == ret):
      continue
    env = sym_env(ev, ri)
    src = r.value
    hops = 0
    while isinstance(src, ast.Name) and src.id in env and src.id != ret and hops < 5:
      src = env[src.id]
      hops += 1
    if isinstance(src, ast.Constant) and src.value is None:
      continue
    if isinstance(src, ast.Name) and src.id == ret:
      continue
    n += 1
    # the value is an element of a collection of inputs filtered by successful(): a comprehension, or a list filled by a loop
    base = src.value if isinstance(src, ast.Subscript) else src
    comp = base
    basename = None
    if isinstance(base, ast.Name):
      basename = base.id
      comp = env.get(base.id, base)
      if not isinstance(comp, (ast.ListComp, ast.GeneratorExp, ast.Call)):
        comp = base
    ok = False
    if isinstance(comp, (ast.ListComp, ast.GeneratorExp)) or (isinstance(comp, ast.Call) and comp.args and isinstance(comp.args[0], (ast.ListComp, ast.GeneratorExp))):
      c = comp if isinstance(comp, (ast.ListComp, ast.GeneratorExp)) else comp.args[0]
      conds = ' and '.join(U(i) for g in c.generators for i in g.ifs).replace(' ', '')
      v = U(c.generators[0].target)
      ok = U(c.generators[0].iter) == ars and ('%s.successful()' % v in conds) and 'not%s.successful()' % v not in conds
    elif basename is not None:
      apps = [(lp, c_) for lp in walk_no_nested(f.node) if isinstance(lp, ast.For) and U(lp.iter) == ars
              for c_ in ast.walk(lp) if isinstance(c_, ast.Call) and call_attr(c_) == 'append' and U(c_.func.value) == basename]
      others = [c_ for c_ in walk_no_nested(f.node) if isinstance(c_, ast.Call) and call_attr(c_) in ('append', 'extend', 'insert') and U(c_.func.value) == basename
                and not any(c_ is a_ for _, a_ in apps)]
      ok = bool(apps) and not others
      for lp, c_ in apps:
        v = U(lp.target)
        okp = False
        for evp, exp in enum_paths(ctx, f, body=lp.body):
          for i, e in enumerate(evp):
            if e.kind == 'call' and e.node is c_:
              okp = ('%s.successful()' % v, True) in FACTS(evp[:i])
              if not okp:
                ok = False
        ok = ok and okp
    key = U(src)
    if key in seen_keys and ok:
      continue
    seen_keys.add(key)
    ctx.ob('C17.R2', f, 'shortcut return %s' % U(src), ok, 'returns %s, which is not filtered by successful()' % U(src), why2)
  # R3
  _link_rules(ctx, f, ars, cb.name)
  tot = [st for st in walk_no_nested(f.node) if isinstance(st, ast.Assign) and U(st.value).replace(' ', '') == '[len(%s)]' % ars]
  ctx.ob('C17.R3', f, 'countdown starts at len(inputs)', len(tot) == 1, 'no countdown cell initialised to [len(%s)]' % ars,
         'failure is reported when every input has failed, i.e. after exactly len(inputs) completions')
  cell = tot[0].targets[0].id if tot else 'total'
  zero = '%s[0]==0' % cell
  paths = enum_paths(ctx, cb)
  why1 = ('WhenAny yields the first success and fails, with the last failure, only when every input has failed; a failure that '
          'overrides an earlier success or arrives before the countdown reaches zero breaks this')
  n_set = n_exc = 0
  for ev, ex in paths:
    fs = facts(ev)
    decs = [e for e in ev if e.kind == 'stmt' and isinstance(e.node, ast.AugAssign) and isinstance(e.node.op, ast.Sub)
            and U(e.node.target).replace(' ', '') == '%s[0]' % cell and U(e.node.value) == '1']
    ctx.ob('C17.R3', cb, 'countdown drops exactly once per completion', len(decs) == 1,
           'a callback path decrements the countdown %d times' % len(decs),
           'each input completes once; counting it 0 or 2 times makes "all failed" fire never or too early')
    sets = [c for c in calls(ev, 'set') if U(c.func.value) == ret]
    excs = [c for c in calls(ev, 'set_exception') if U(c.func.value) == ret]
    if len(sets) + len(excs) > 1:
      ctx.ob('C17.R1', cb, 'at most one resolution per callback path', False, 'a path resolves the result twice', why1)
    guard = has(fs, '%s.ready()' % ret, False)
    for c in sets:
      n_set += 1
      ok = guard and (has(fs, '%s.successful()' % arp, True) or has(fs, '%s.exception' % arp, False)) and U(c.args[0]) == '%s.value' % arp
      ctx.ob('C17.R1', cb, 'success resolution guarded', ok, 'ret.set on a path with facts %s' % fs, why1)
    for c in excs:
      n_exc += 1
      # the zero test must come after the decrement
      order_ok = False
      di = [i for i, e in enumerate(ev) if decs and e is decs[0]]
      # (a named boolean `last = total[0] == 0` tested later was evaluated where it was assigned)
      def eval_at(i_):
        n_ = ev[i_].node
        if isinstance(n_, ast.UnaryOp) and isinstance(n_.op, ast.Not):
          n_ = n_.operand
        if isinstance(n_, ast.Name):
          for j_ in range(i_ - 1, -1, -1):
            if ev[j_].kind == 'stmt' and isinstance(ev[j_].node, ast.Assign) and any(isinstance(t_, ast.Name) and t_.id == n_.id for t_ in ev[j_].node.targets):
              return j_
        return i_
      zi = [eval_at(i) for c_, t_, i in FACTS_I(ev) if (c_, t_) == (zero, True) and ev[i].kind == 'cond']
      if di and zi and di[0] < zi[0]:
        order_ok = True
      ok = guard and order_ok and not has(fs, '%s.successful()' % arp, True) and U(c.args[0]) == '%s.exception' % arp
      ctx.ob('C17.R1', cb, 'failure resolution guarded by not ready and countdown zero', ok,
             'ret.set_exception on a path with facts %s' % fs, why1)
  ctx.floor('C17.R1', 'WhenAny resolutions', min(n_set, n_exc), 1)
  # complementary: a successful completion while not ready must resolve; the last failure must resolve
  for ev, ex in paths:
    fs = facts(ev)
    if has(fs, '%s.ready()' % ret, False) and has(fs, '%s.successful()' % arp, True):
      ctx.ob('C17.R1', cb, 'first success resolves', any(U(c.func.value) == ret for c in calls(ev, 'set')),
             'a successful completion does not resolve the pending result', why1)
    if has(fs, '%s.ready()' % ret, False) and has(fs, '%s.successful()' % arp, False) and has(fs, zero, True):
      ctx.ob('C17.R1', cb, 'last failure resolves', any(U(c.func.value) == ret for c in calls(ev, 'set_exception')),
             'the last failure does not fail the pending result', why1)
  rets = [x for x in f.node.body if isinstance(x, ast.Return)]
  ctx.ob('C17.R1', f, 'returns the combined result', bool(rets) and U(rets[-1].value) == ret, 'final return is not the combined result', why1, nontrivial=False)


def when_all(ctx):
  prog = ctx.prog
  f = prog.func(A, 'AsyncResult.WhenAll')
  ars = f.params[0]
  ret = _ret_name(f)
  cb = f.nested.get('complete') or list(f.nested.values())[0]
  if len(cb.params) < 2:
    raise AnalysisError('WhenAll callback signature changed')
  idx, arp = cb.params[0], cb.params[1]
  lp, link = _link_rules(ctx, f, ars, cb.name)
  why3 = 'results must be in input order: the slot index has to be bound when the input is linked, not read from the loop variable when the callback runs'
  ok = False
  if link is not None and lp is not None:
    a = link.args[0]
    loopvars = [n.id for n in ast.walk(lp.target) if isinstance(n, ast.Name)]
    if isinstance(a, ast.Call) and U(a.func) in ('functools.partial', 'partial') and len(a.args) == 2 and U(a.args[0]) == cb.name \
        and isinstance(a.args[1], ast.Name) and a.args[1].id in loopvars and U(lp.iter).startswith('enumerate('):
      ok = lp.target.elts[0].id == a.args[1].id if isinstance(lp.target, ast.Tuple) else False
    elif isinstance(a, ast.Lambda):
      # eager binding through a default argument
      d = a.args.defaults
      ok = bool(d) and all(isinstance(x, ast.Name) and x.id in loopvars for x in d) and U(lp.iter).startswith('enumerate(')
      if ok:
        body = a.body
        ok = isinstance(body, ast.Call) and U(body.func) == cb.name and isinstance(body.args[0], ast.Name) and body.args[0].id in [x.arg for x in a.args.args[-len(d):]]
  ctx.ob('C17.R3', f, 'slot index bound eagerly per input', ok, 'callback registration is %s' % (U(link) if link is not None else None), why3)
  init = {}
  for st in walk_no_nested(f.node):
    if isinstance(st, ast.Assign) and isinstance(st.targets[0], ast.Name):
      init[st.targets[0].id] = U(st.value).replace(' ', '')
  cnt = [k for k, v in init.items() if v in ('len(%s)' % ars,)]
  cell = [k for k, v in init.items() if cnt and v == '[%s]' % cnt[0] or v == '[len(%s)]' % ars]
  res = [k for k, v in init.items() if v.startswith('[None]*')]
  ctx.ob('C17.R3', f, 'countdown and result slots sized by the inputs', bool(cell) and bool(res), 'initialisation is %s' % init,
         'success is reported after exactly len(inputs) successes with one slot per input')
  cell = cell[0] if cell else 'total'
  res = res[0] if res else 'results'
  why1 = 'WhenAll succeeds with all values exactly when all inputs succeed and fails as soon as any input fails; a success after a failure must not resolve again'
  n_ok = 0
  for ev, ex in enum_paths(ctx, cb):
    fs = facts(ev)
    sets = [c for c in calls(ev, 'set') if U(c.func.value) == ret]
    excs = [c for c in calls(ev, 'set_exception') if U(c.func.value) == ret]
    if has(fs, '%s.exception' % arp, True) or has(fs, '%s.successful()' % arp, False):
      if has(fs, '%s.ready()' % ret, True):
        ctx.ob('C17.R1', cb, 'a failure after the result is resolved changes nothing', not excs and not sets, 'resolved result is resolved again with %s' % [U(c) for c in excs + sets], why1)
        continue
      ok = len(excs) == 1 and U(excs[0].args[0]) == '%s.exception' % arp and not sets
      ctx.ob('C17.R1', cb, 'a failing input fails the result at once', ok, 'failure path resolves with %s' % [U(c) for c in excs + sets], why1)
      ctx.ob('C17.R1', cb, 'a failing input resolves the result only if it is not resolved yet', has(fs, '%s.ready()' % ret, False),
             'set_exception on a path that does not test %s.ready(): a second failing input replaces the failure observers already saw' % ret,
             'WhenAll fails as soon as any input fails -- with that failure; a later failure must not change an already resolved result')
      continue
    if excs:
      ctx.ob('C17.R1', cb, 'set_exception only for a failed input', False, 'set_exception on a path without a failed-input fact', why1)
    decs = [e for e in ev if e.kind == 'stmt' and isinstance(e.node, ast.AugAssign) and isinstance(e.node.op, ast.Sub)
            and U(e.node.target).replace(' ', '') == '%s[0]' % cell and U(e.node.value) == '1']
    wr = [e for e in ev if e.kind == 'stmt' and isinstance(e.node, ast.Assign) and U(e.node.targets[0]).replace(' ', '') == '%s[%s]' % (res, idx)]
    if has(fs, '%s.ready()' % ret, False):
      n_ok += 1
      ok = len(decs) == 1 and len(wr) == 1 and U(wr[0].node.value) == '%s.value' % arp
      ctx.ob('C17.R3', cb, 'success stores its value in its slot and counts down once', ok,
             'success path: %d decrements, slot writes %s' % (len(decs), [U(w.node) for w in wr]),
             'values must be reported in input order, each input counted once')
      zero = has(fs, '%s[0]==0' % cell, True)
      if zero:
        di = [i for i, e in enumerate(ev) if decs and e is decs[0]]
        zi = [i for i, e in enumerate(ev) if e.kind == 'cond' and (('%s[0]==0' % cell, True) in FACTS([e]) or (resolved_text(ev, i, e.node) == '%s[0]==0' % cell and e.info))]
        wi = [i for i, e in enumerate(ev) if wr and e is wr[0]]
        si = [i for i, e in enumerate(ev) if e.kind == 'call' and sets and e.node is sets[0]]
        ok = len(sets) == 1 and U(sets[0].args[0]) == res and di and zi and wi and si and di[0] < zi[0] and wi[0] < si[0]
        ctx.ob('C17.R1', cb, 'all successes resolve with the ordered results', bool(ok), 'zero-countdown path does not set(%s) after storing the value' % res, why1)
      else:
        ctx.ob('C17.R1', cb, 'no success before the countdown reaches zero', not sets, 'ret.set before all inputs succeeded', why1)
    else:
      ctx.ob('C17.R1', cb, 'success resolution guarded by not ready', not sets, 'ret.set without a not-ready guard', why1)
  ctx.floor('C17.R1', 'WhenAll guarded success paths', n_ok, 2)
  # zero inputs: "succeeds exactly when all inputs succeed" holds vacuously; no callback will ever run, so the
  # function itself has to resolve the result
  empty_ok = False
  for ev, ex in enum_paths(ctx, f):
    for i, e in enumerate(ev):
      if e.kind == 'call' and call_attr(e.node) == 'set' and U(e.node.func.value) == ret:
        conds = [(resolved_text(ev, j, c.node), bool(c.info)) for j, c in enumerate(ev[:i]) if c.kind == 'cond']
        n_expr = 'len(%s)' % ars
        if any((t in ('%s==0' % n_expr, 'not%s' % ars, 'not%s' % n_expr, '%s<1' % n_expr, '0==%s' % n_expr) and v) or
               (t in ('%s!=0' % n_expr, ars, n_expr, '%s>0' % n_expr, '%s>=1' % n_expr) and not v) for t, v in conds):
          empty_ok = True
  ctx.ob('C17.R1', f, 'WhenAll of no inputs succeeds at once (nothing will ever call back)', empty_ok,
         'no path resolves the result when the input list is empty: WhenAll([]) never completes',
         'for every number of inputs: with zero inputs all inputs have succeeded, and no rawlink callback exists that could resolve the result later')


def params_of_lambda(lam):
  a = lam.args
  return [x.arg for x in a.posonlyargs + a.args + a.kwonlyargs] + ([a.vararg.arg] if a.vararg else []) + ([a.kwarg.arg] if a.kwarg else [])


def continue_with(ctx):
  prog = ctx.prog
  f = prog.func(A, 'AsyncResult.ContinueWith')
  why = 'the continuation runs exactly once after completion and its result or exception is captured'
  cw = None
  for st in walk_no_nested(f.node):
    if isinstance(st, ast.Assign) and isinstance(st.value, ast.Call) and U(st.value.func) == 'AsyncResult' and isinstance(st.targets[0], ast.Name):
      cw = st.targets[0].id
  links = [c for c in walk_no_nested(f.node) if isinstance(c, ast.Call) and call_attr(c) == 'rawlink']
  outer = f.nested.get('continue_with_callback') or (list(f.nested.values())[0] if f.nested else None)
  ok = cw is not None and outer is not None and len(links) == 1 and U(links[0].func.value) == 'self' and U(links[0].args[0]) == outer.name
  ctx.ob('C17.R4', f, 'one rawlink of the continuation on self', ok, 'link registration changed', why)
  if outer is not None:
    # the callback is started exactly once on every path: handed to rawlink (gevent runs a link of an already completed result too)
    # or called directly, never both
    for ev, ex in enum_paths(ctx, f):
      if ex[0] == 'raise':
        continue
      n_link = len([e for e in ev if e.kind == 'call' and call_attr(e.node) in ('rawlink', 'link', 'SafeLink') and e.node.args and U(e.node.args[0]) == outer.name])
      n_call = len([e for e in ev if e.kind == 'call' and isinstance(e.node.func, ast.Name) and e.node.func.id == outer.name])
      ctx.ob('C17.R4', f, 'the continuation callback is started exactly once on every path', n_link + n_call == 1,
             'a path links the callback %d times and calls it directly %d times (rawlink on a completed result still runs the link: the continuation would run twice)' % (n_link, n_call), why)
  rets = [x for x in f.node.body if isinstance(x, ast.Return)]
  ctx.ob('C17.R4', f, 'returns the continuation result', bool(rets) and U(rets[-1].value) == cw, 'does not return the new AsyncResult', why, nontrivial=False)
  if outer is None:
    return
  run = outer.nested.get('run') or (list(outer.nested.values())[0] if outer.nested else None)
  cwname, fnname = cw, f.params[1]
  started = None
  if run is None:
    # the continuation body may live in a method: cw_ar._RunContinuation(fn, _ar)
    cands = [c for c in ast.walk(outer.node) if isinstance(c, ast.Call) and isinstance(c.func, ast.Attribute) and U(c.func.value) == cw]
    tgt = None
    for c in cands:
      m = f.cls.methods.get(c.func.attr) if f.cls is not None else None
      if m is not None and len(c.args) >= 1 and U(c.args[0]) == f.params[1]:
        tgt = (m, c)
    if tgt is None:
      ctx.ob('C17.R4', outer, 'continuation body', False, 'run() helper not found', why)
      return
    run = tgt[0]
    cwname, fnname = 'self', run.params[1]

  else:
    # run() may hand the call to a method of the result as a thunk: cw_ar._SafeLinkHelper(lambda: fn(_ar))
    body = [s_ for s_ in run.node.body if not (isinstance(s_, ast.Expr) and isinstance(s_.value, ast.Constant))]
    c = body[0].value if len(body) == 1 and isinstance(body[0], ast.Expr) else None
    if (isinstance(c, ast.Call) and isinstance(c.func, ast.Attribute) and U(c.func.value) == cw and len(c.args) == 1 and not c.keywords
        and isinstance(c.args[0], ast.Lambda) and not params_of_lambda(c.args[0]) and f.cls is not None and f.cls.methods.get(c.func.attr) is not None):
      m = f.cls.methods[c.func.attr]
      thunk = c.args[0].body
      good = (isinstance(thunk, ast.Call) and isinstance(thunk.func, ast.Name) and thunk.func.id == f.params[1] and len(thunk.args) == 1 and not thunk.keywords
              and U(thunk.args[0]) == outer.params[0])
      ctx.ob('C17.R4', run, 'the thunk handed to %s is fn(<completed result>)' % m.name, good, 'thunk is %s' % U(thunk), why)
      if len(m.params) == 2:
        started = run
        run = m
        cwname, fnname = 'self', m.params[1]

  if started is None:
    started = run

  def mr(call, armed):
    if isinstance(call.func, ast.Name) and call.func.id == fnname:
      # a user continuation may raise anything, including BaseException kinds such as gevent.Timeout
      return ['Exception', 'Timeout']
    return []
  n = 0
  for ev, ex in enum_paths(ctx, run, mr):
    sets = [c for c in calls(ev, 'set') if U(c.func.value) == cwname]
    excs = [c for c in calls(ev, 'set_exception') if U(c.func.value) == cwname]
    fn_calls = [e for e in ev if e.kind == 'call' and isinstance(e.node.func, ast.Name) and e.node.func.id == fnname]
    n += 1
    ok = len(sets) + len(excs) == 1 and len(fn_calls) == 1 and ex[0] == 'ret'
    if ok and fn_calls[0].info:      # fn raised
      ok = len(excs) == 1
    elif ok:
      ok = len(sets) == 1
    ctx.ob('C17.R4', run, 'continuation path calls fn once and resolves once', ok,
           'path calls fn %d times, sets %d, set_exception %d, exit %s' % (len(fn_calls), len(sets), len(excs), ex[0]), why)
  ctx.floor('C17.R4', 'continuation paths', n, 2)
  # outer: run() on hub or spawned, exactly once
  for ev, ex in enum_paths(ctx, outer):
    direct = [e for e in ev if e.kind == 'call' and ((isinstance(e.node.func, ast.Name) and e.node.func.id == started.name) or (isinstance(e.node.func, ast.Attribute) and e.node.func.attr == started.name and U(e.node.func.value) == cw))]
    spawned = [e for e in ev if e.kind == 'call' and call_name(e.node) == 'gevent.spawn' and e.node.args and U(e.node.args[0]) in (started.name, '%s.%s' % (cw, started.name))]
    ctx.ob('C17.R4', outer, 'continuation runs exactly once per completion', len(direct) + len(spawned) == 1,
           'run() started %d times on a path' % (len(direct) + len(spawned)), why)
  # Map
  m = prog.func(A, 'AsyncResult.Map')
  mp = m.nested.get('mapper') or (list(m.nested.values())[0] if m.nested else None)
  whym = 'Map applies its function only to successful values; a failed input propagates its failure'
  if mp is None:
    ctx.ob('C17.R4', m, 'mapper', False, 'mapper not found', whym)
    return
  fnp = m.params[1]
  for ev, ex in enum_paths(ctx, mp):
    fs = facts(ev)
    fn_calls = [e.node for e in ev if e.kind == 'call' and isinstance(e.node.func, ast.Name) and e.node.func.id == fnp]
    r = [e for e in ev if e.kind == 'ret']
    if has(fs, 'self.exception', True) or has(fs, 'self.successful()', False):
      ok = not fn_calls and r and U(r[-1].node.value) == 'self'
      ctx.ob('C17.R4', mp, 'failed input: fn not applied, failure propagated', bool(ok), 'exception branch calls fn or does not return self', whym)
    else:
      ok = len(fn_calls) == 1 and U(fn_calls[0].args[0]) == 'self.value' and r and r[-1].node.value is fn_calls[0]
      ctx.ob('C17.R4', mp, 'successful input: fn(self.value)', bool(ok), 'success branch is %s' % (U(r[-1].node) if r else None), whym)
  body = U(m.node.body[-1]).replace(' ', '')
  ctx.ob('C17.R4', m, 'Map = ContinueWith(mapper).Unwrap()', body == 'returnself.ContinueWith(%s).Unwrap()' % mp.name, 'Map body is %s' % body, whym)


def unwrap(ctx):
  prog = ctx.prog
  f = prog.func(A, 'AsyncResult._UnwrapHelper')
  tgt = f.params[1]
  why = ('Unwrap yields the innermost plain value or the first failure of a chain of nested results: every level must be '
         'classified as failed / nested result / plain value / not yet ready')
  seen = set()
  for ev, ex in enum_paths(ctx, f):
    fs = facts(ev)
    sets = [c for c in calls(ev, 'set') if U(c.func.value) == tgt]
    excs = [c for c in calls(ev, 'set_exception') if U(c.func.value) == tgt]
    rec = [c for c in calls(ev, '_UnwrapHelper')]
    links = calls(ev, 'rawlink')
    if has(fs, 'self.ready()', False):
      seen.add('pending')
      ok = not sets and not excs and not rec and len(links) == 1 and U(links[0].func.value) == 'self'
      if ok:
        a = links[0].args[0]
        if isinstance(a, ast.Call) and U(a.func) in ('functools.partial', 'partial'):
          ok = (U(a.args[0]).endswith('_UnwrapHelper') and any(k.arg == tgt or k.arg == 'target' for k in a.keywords) and all(U(k.value) == tgt for k in a.keywords))
        elif isinstance(a, ast.Lambda) and isinstance(a.body, ast.Call) and len(a.args.args) == 1:
          b = a.body
          p0 = a.args.args[0].arg
          ok = (U(b.func).endswith('_UnwrapHelper') and ((U(b.func) == p0 + '._UnwrapHelper' and [U(x) for x in b.args] + [U(k.value) for k in b.keywords] == [tgt]) or
                                                      ([U(x) for x in b.args][:1] == [p0] and ([U(x) for x in b.args[1:]] + [U(k.value) for k in b.keywords]) == [tgt])))
        else:
          ok = False
      ctx.ob('C17.R4', f, 'pending level relinks the helper with the same target', bool(ok), 'pending branch is %s' % [U(l) for l in links], why)
    elif has(fs, 'self.exception', True):
      seen.add('failed')
      ok = len(excs) == 1 and U(excs[0].args[0]) == 'self.exception' and not sets and not rec
      ctx.ob('C17.R4', f, 'failed level fails the target', ok, 'failed branch: %s' % [U(c) for c in excs + sets + rec], why)
    elif has(fs, 'isinstance(self.value,AsyncResult)', True):
      seen.add('nested')
      ok = len(rec) == 1 and U(rec[0].func.value) == 'self.value' and U(rec[0].args[0]) == tgt and not sets and not excs
      ctx.ob('C17.R4', f, 'nested level recurses into the inner result', ok,
             'nested branch: recursion %s, direct resolutions %s' % ([U(c) for c in rec], [U(c) for c in sets + excs]), why)
    elif has(fs, 'isinstance(self.value,AsyncResult)', False):
      seen.add('plain')
      ok = len(sets) == 1 and U(sets[0].args[0]) == 'self.value' and not rec and not excs
      ctx.ob('C17.R4', f, 'plain level sets the target to its value', ok, 'plain branch: %s' % [U(c) for c in sets + rec + excs], why)
    else:
      ctx.ob('C17.R4', f, 'unclassified unwrap path', False, 'path with facts %s' % fs, why)
  ctx.ob('C17.R4', f, 'four-way classification is exhaustive', seen == {'pending', 'failed', 'nested', 'plain'}, 'branches seen: %s' % sorted(seen), why)
  u = prog.func(A, 'AsyncResult.Unwrap')
  txt = U(u.node).replace(' ', '')
  fresh = [st.targets[0].id for st in u.node.body if isinstance(st, ast.Assign) and isinstance(st.value, ast.Call) and U(st.value.func) == 'AsyncResult']
  ok = len(fresh) == 1 and 'self._UnwrapHelper(%s)' % fresh[0] in txt and txt.endswith('return%s' % fresh[0])
  ctx.ob('C17.R4', u, 'Unwrap starts the helper on a fresh result and returns it', ok, 'Unwrap body changed', why)
