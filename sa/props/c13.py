"""C13 ThriftMux frames are byte-exact for every message, tag and context."""
import ast

from ..model import AnalysisError, dotted, unparse
from ..structfmt import parse_format, local_defs, resolve_local, linform, lin_eq, SIZES
from ..util import resolved_text, FACTS, U, enum_paths, walk_no_nested, expand_events
from ..paths import call_attr, call_name
from .. import wire, bitvec

SER = 'scales/thriftmux/serializer.py'
TSINK = 'scales/thriftmux/sink.py'
MUX = 'scales/mux/sink.py'
PROTO = 'scales/thriftmux/protocol.py'

# protocol table (mux spec), frozen: message type constants the client uses
MUX_TYPES = {'Tdispatch': 2, 'Rdispatch': -2, 'Tping': 65, 'Rping': -65, 'Tdiscarded': 66,
             'Rerr': -128, 'BAD_Rerr': 127}


def check(ctx):
  prog = ctx.prog
  ctx.rule('C13.R1', 'every struct pack/unpack site of the mux codec: network byte order, values == fields, value kinds fit codes, unpack reads calcsize bytes')
  ctx.rule('C13.R2', "a packed length / '%ds' count is len() of the very bytes written")
  ctx.rule('C13.R3', 'frame header: declared length = bytes after the length field (calcsize + data_len); data_len and body come from the same never-rewound stream')
  ctx.rule('C13.R4', 'bit-slice algebra: tag bytes are the big-endian 24-bit tag; ReadHeader inverts the header writer for every dispatched reply type and every tag')
  ctx.rule('C13.R5', 'body tables: Tdispatch = contexts, empty dst/dtab, thrift call; Tdiscarded = 3-byte tag + utf-8 reason; Rdispatch reader = status, context skips, status dispatch; type constants = mux table')
  ctx.rule('C13.R6', 'deadline context: the supplied deadline reaches the 16-byte value unmodified: Deadline(<Deadline.KEY property>), nanoseconds = trunc(10^9 * seconds) (scale/granularity interpretation), packed as !qq (_ts, _timeout) after length 16')
  ctx.decline('value-level round trip of every frame and the Thrift payload itself (C14) are not decided; only length/format/size/bit-layout agreement is')

  ser_cls = prog.cls(SER, 'MessageSerializer')
  funcs = [f for f in prog.all_funcs if f.module.rel in (SER, TSINK) and f.parent is None]
  funcs += [prog.func(MUX, 'Tag.Encode'), prog.func(MUX, 'MuxSocketTransportSink._RecvLoop')]
  sites = wire.check_formats(ctx, 'C13.R1', funcs)
  ctx.floor('C13.R1', 'struct sites', len(sites), 11)

  n = wire.check_length_prefixes(ctx, 'C13.R2', funcs)
  ctx.floor('C13.R2', 'symbolic-count payloads', n, 1)
  r2_discard(ctx)
  r3_header(ctx)
  wire.complete_write_rules(ctx, 'C13.R3')
  r4_bits(ctx)
  r5_tables(ctx)
  r6_deadline(ctx)
  client_id_context(ctx)
  from . import c12 as _c12
  ctx.rule('C12.R5', 'shared with C12: a Tdiscarded is a one-way message (the transport writes header tag 0 for it and leases nothing)')
  _c12.discard_one_way(ctx, 'C13.R3')
  from . import c14
  ctx.rule('C14.R3', 'shared with C14: the Thrift call that ends every Tdispatch body is built from this call\'s own arguments (a fresh <method>_args(*args, **kwargs))')
  c14.r3(ctx)
  single_writer(ctx)


def client_id_context(ctx):
  """The client id given to the builder travels as the finagle ClientId context of every Tdispatch: the interceptor sink records it where the
  serializer collects contexts from (the public message properties; the transport headers only if the serializer sink does not start from an
  empty header dict), under the well-known public key."""
  prog = ctx.prog
  why = 'contexts of a Tdispatch are the public message properties plus the headers the serializer sink itself builds; the client id must be among them'
  f = prog.func(TSINK, 'ClientIdInterceptorSink.AsyncProcessRequest')
  ssf = prog.func(TSINK, 'ThriftMuxMessageSerializerSink.AsyncProcessRequest')
  hp = ssf.params[4] if len(ssf.params) > 4 else 'headers'
  hdr_rebound = any(isinstance(st, ast.Assign) and any(U(t) == hp for t in st.targets) for st in walk_no_nested(ssf.node))
  msgp, hdrp = f.params[2], f.params[4]
  channels = ['%s.properties' % msgp] + ([] if hdr_rebound else [hdrp])
  n = 0
  for ev, ex in enum_paths(ctx, f):
    fwd = [i for i, e in enumerate(ev) if e.kind == 'call' and call_attr(e.node) == 'AsyncProcessRequest' and 'next_sink' in U(e.node.func)]
    if not fwd:
      continue
    n += 1
    st = [i for i, e in enumerate(ev[:fwd[0]]) if e.kind == 'stmt' and isinstance(e.node, ast.Assign) and isinstance(e.node.targets[0], ast.Subscript)
          and U(e.node.targets[0].value) in channels and U(e.node.targets[0].slice).endswith('CLIENT_ID_HEADER') and U(e.node.value) == 'self._client_id']
    ctx.ob('C13.R5', f, 'the client id is recorded as a context before the request is forwarded', len(st) == 1,
           'client id stores into %s before forwarding: %d (the serializer sink %s)' % (channels, len(st), 'starts from an empty header dict: what an earlier sink puts in headers is dropped' if hdr_rebound else 'keeps the headers it is given'), why)
  ctx.floor('C13.R5', 'forwarding paths of the client id interceptor', n, 1)
  cls = prog.cls(TSINK, 'ClientIdInterceptorSink')
  k = cls.consts.get('CLIENT_ID_HEADER')
  ctx.ob('C13.R5', '%s:%d' % (TSINK, cls.node.lineno), 'ClientId context key', isinstance(k, ast.Constant) and k.value == 'com.twitter.finagle.thrift.ClientIdContext',
         'CLIENT_ID_HEADER is %s' % (U(k) if k is not None else None), 'the key is fixed by the finagle protocol and must be public (not "__"-prefixed) to be sent', nontrivial=False)
  ini = prog.func(TSINK, 'ClientIdInterceptorSink.__init__')
  ok = any(isinstance(st_, ast.Assign) and U(st_.targets[0]) == 'self._client_id' and U(st_.value) == '%s.client_id' % ini.params[2] for st_ in walk_no_nested(ini.node))
  ctx.ob('C13.R5', ini, 'the recorded id is the configured one', ok, 'self._client_id is not sink_properties.client_id', why, nontrivial=False)


def single_writer(ctx, rule='C13.R3'):
  """Frames reach the socket through one greenlet: the send loop is the only writer of the mux connection."""
  prog = ctx.prog
  why = ('ScalesSocket.write is a loop of partial send() calls that yields when the kernel buffer is full: a second writer (a ping written directly, a reply to a '
         'control message) lands in the middle of a half-written frame, and the byte stream is no longer a sequence of whole frames')
  writers = []
  for f in prog.all_funcs:
    if f.module.rel not in (MUX, TSINK, 'scales/kafka/sink.py'):
      continue
    for c in ast.walk(f.node):
      if isinstance(c, ast.Call) and isinstance(c.func, ast.Attribute) and c.func.attr in ('write', 'send', 'sendall') and U(c.func.value).endswith('_socket'):
        writers.append(f.qualname)
  ctx.ob(rule, prog.func(MUX, 'MuxSocketTransportSink._SendLoop'), 'the send loop is the only writer of the connection', sorted(set(writers)) == ['MuxSocketTransportSink._SendLoop'],
         'the socket is written from %s' % sorted(set(writers)), why)


# ---------------------------------------------------------------------- R2b
def r2_discard(ctx):
  prog = ctx.prog
  f = prog.func(SER, 'MessageSerializer._Marshal_Tdiscarded')
  # reason is written as utf-8 bytes with no length prefix (it runs to the end of the frame)
  writes = [c for c in walk_no_nested(f.node) if isinstance(c, ast.Call) and call_attr(c) == 'write']
  enc = [w for w in writes if w.args and isinstance(w.args[0], ast.Call) and call_attr(w.args[0]) == 'encode'
         and U(w.args[0].func.value).endswith('reason')]
  ok = bool(enc) and all(_is_utf8(w.args[0]) for w in enc)
  ctx.ob('C13.R5', f, 'Tdiscarded reason written as utf-8', ok,
         'the discard reason is not written as utf-8 encoded bytes',
         'a discard body is the 3-byte tag followed by the reason text')


def _is_utf8(call):
  if not call.args:
    return True     # default encoding is utf-8
  a = call.args[0]
  return isinstance(a, ast.Constant) and str(a.value).lower().replace('-', '') == 'utf8'


# ----------------------------------------------------------------------- R3
def r3_header(ctx):
  prog = ctx.prog
  f = prog.func(TSINK, 'SocketTransportSink._BuildHeader')
  defs = local_defs(f.node)
  packs = [s for s in wire.struct_sites(prog, f) if s.op == 'pack']
  if len(packs) != 1 or packs[0].fmt is None:
    raise AnalysisError('C13.R3: _BuildHeader does not contain exactly one interpretable pack()')
  s = packs[0]
  flds = s.fmt.fields
  params = f.params
  if len(params) < 4:
    raise AnalysisError('C13.R3: _BuildHeader signature changed')
  data_len = params[3]
  ok_layout = [(x.code, x.count) for x in flds] in ([('i', 1), ('b', 1), ('B', 1), ('B', 1), ('B', 1)],
                                                   [('i', 1), ('b', 1), ('B', 3)])
  ctx.ob('C13.R3', f, 'header layout', ok_layout,
         'header format %r is not int32 length, signed type byte, three tag bytes' % s.fmt.text,
         'a mux frame is a 4-byte length, a signed type byte and a 24-bit tag')
  rest = sum(SIZES[x.code] * (x.count or 0) for x in flds[1:])
  try:
    lf = linform(s.args[0], defs, s.call.lineno)
    ok = lin_eq(lf, {'': rest, data_len: 1})
  except ValueError:
    lf, ok = None, False
  ctx.ob('C13.R3', f, 'declared length', ok,
         'declared length %s != %d + %s' % (lf, rest, data_len),
         'the length prefix must count exactly the bytes that follow it (type, tag, body); any other value makes the peer mis-frame every later message')
  # second value is the message type parameter
  ctx.ob('C13.R3', f, 'type byte source', isinstance(s.args[1], ast.Name) and s.args[1].id == params[2],
         'type byte is not the msg_type parameter', 'the header must carry the message type it was asked to write')

  wire.transport_len_rules(ctx, 'C13.R3')
  producer = prog.func(TSINK, 'ThriftMuxMessageSerializerSink.AsyncProcessRequest')
  helpers = [g for g in prog.all_funcs if g.module.rel == SER and g.name.startswith(('_Marshal', 'Marshal', '_WriteContext'))]
  helpers.append(prog.func('scales/thrift/serializer.py', 'MessageSerializer.SerializeThriftCall'))
  wire.fresh_stream_rules(ctx, 'C13.R3', producer, helpers)
  dm = prog.func(TSINK, 'SocketTransportSink._CreateDiscardMessage')
  fresh = [st for st in walk_no_nested(dm.node) if isinstance(st, ast.Assign) and isinstance(st.value, ast.Call)
           and (dotted(st.value.func) or '').split('.')[-1] == 'BytesIO' and not st.value.args]
  ctx.ob('C13.R3', dm, 'fresh discard stream', bool(fresh) and not any(
    isinstance(c, ast.Call) and call_attr(c) in ('seek', 'truncate') for c in walk_no_nested(dm.node)),
         'discard body is not a fresh, unrewound BytesIO()', 'tell() equals the body length only on a fresh stream written front to back')


# ----------------------------------------------------------------------- R4
def _tag_bytes(ctx, f):
  """Bit vectors of the three tag bytes returned by a tag encoder (list literal)."""
  rets = [r for r in ast.walk(f.node) if isinstance(r, ast.Return)]
  if len(rets) != 1 or not isinstance(rets[0].value, (ast.List, ast.Tuple)) or len(rets[0].value.elts) != 3:
    raise AnalysisError('tag encoder %s does not return a 3-element list literal' % f.qualname)
  it = bitvec.Interp()
  tag = bitvec.BV.sym('t', 24)
  env = {}
  # parameter or self._tag
  out = []
  for e in rets[0].value.elts:
    e2 = _subst_tag(e)
    out.append(it.eval(e2, {'__tag__': tag}))
  return out


class _TagSub(ast.NodeTransformer):
  def visit_Attribute(self, node):
    if unparse(node) == 'self._tag':
      return ast.copy_location(ast.Name(id='__tag__', ctx=ast.Load()), node)
    return node

  def visit_Name(self, node):
    if node.id == 'tag':
      return ast.copy_location(ast.Name(id='__tag__', ctx=ast.Load()), node)
    return node


def _subst_tag(e):
  import copy
  return _TagSub().visit(copy.deepcopy(e))


def r4_bits(ctx):
  prog = ctx.prog
  why_tag = 'the reader reassembles the tag as b2*2^16 + b1*2^8 + b0; any other byte order or mask routes replies to the wrong request'
  enc0 = prog.try_func(TSINK, 'SocketTransportSink._EncodeTag')
  delegated = False
  if enc0 is None:
    # the header writer may use the sibling encoder directly: pack(.., *Tag(<tag parameter>).Encode())
    bh0 = prog.func(TSINK, 'SocketTransportSink._BuildHeader')
    for x in wire.struct_sites(prog, bh0):
      for a in (x.args if x.op == 'pack' else []):
        if isinstance(a, ast.Starred) and isinstance(a.value, ast.Call) and call_attr(a.value) == 'Encode' and isinstance(a.value.func.value, ast.Call) \
           and U(a.value.func.value.func).split('.')[-1] == 'Tag' and [U(z) for z in a.value.func.value.args] == [bh0.params[1]]:
          delegated = True
  if enc0 is None and not delegated:
    # the header writer no longer goes through the byte-wise tag encoder: it may pack type and tag as one 32-bit word.
    # The mux type is a SIGNED byte (every reply type is negative), so such a word must be packed signed
    bh_ = prog.func(TSINK, 'SocketTransportSink._BuildHeader')
    sites_ = [x for x in wire.struct_sites(prog, bh_) if x.op == 'pack']
    okw = False
    whatw = 'header writer not recognised'
    if len(sites_) == 1 and sites_[0].fmt is not None:
      codes = [(x.code, x.count) for x in sites_[0].fmt.fields]
      tparam, mparam = bh_.params[1], bh_.params[2]
      if codes == [('i', 1), ('i', 1)] or codes == [('i', 1), ('l', 1)]:
        w = U(sites_[0].args[1]).replace(' ', '').replace('(', '').replace(')', '')
        okw = w in ('%s<<24|%s&16777215' % (mparam, tparam), '%s<<24|%s&0xffffff' % (mparam, tparam), '%s&16777215|%s<<24' % (tparam, mparam))
        whatw = 'header word is %s' % U(sites_[0].args[1])
      else:
        whatw = ('the header packs type and tag with format %r: the type byte is signed (reply types are negative), an unsigned word cannot hold '
                 'type << 24 for them (struct.error) and the reader no longer inverts the writer for any reply type' % sites_[0].fmt.text)
    ctx.ob('C13.R4', bh_, 'the header writer packs the signed type byte and the 24-bit tag', okw, whatw, why_tag)
    return
  encs = ([enc0] if enc0 is not None else []) + [prog.func(MUX, 'Tag.Encode')]
  vecs = []
  for f in encs:
    try:
      bs = _tag_bytes(ctx, f)
      ok = True
      for j, b in enumerate(bs):          # byte j carries tag bits (23-8j .. 16-8j)
        lo = 16 - 8 * j
        want = [('t', lo + i) for i in range(8)] + [0] * (bitvec.W - 8)
        ok = ok and b.bits == want
      vecs.append(bs)
    except bitvec.Undecidable as e:
      ok = False
    ctx.ob('C13.R4', f, 'tag bytes are big-endian slices of the tag', ok,
           'encoder does not produce [tag>>16 & 0xff, tag>>8 & 0xff, tag & 0xff]', why_tag)
    # ... of the tag it was GIVEN: the parameter (or self._id) is not rebound before the bytes are taken
    reb = sorted(set(U(n) for n in ast.walk(f.node) if isinstance(n, (ast.Name, ast.Attribute)) and isinstance(n.ctx, (ast.Store, ast.Del))
                     and (U(n) in f.params or U(n).startswith('self.'))))
    ctx.ob('C13.R4', f, 'the encoder does not change the tag before slicing it', not reb, 'the encoder rebinds %s before taking the bytes' % reb,
           why_tag + '; a tag masked or offset before encoding goes out under a different number than the one registered in the tag map')
  if len(encs) == 2:
    ctx.ob('C13.R4', encs[0], 'sibling tag encoders agree', len(vecs) == 2 and all(a.bits == b.bits for a, b in zip(*vecs)) if len(vecs) == 2 else False,
           'Tag.Encode and _EncodeTag disagree', why_tag)

  # the header writer uses the encoder for the three B fields
  bh = prog.func(TSINK, 'SocketTransportSink._BuildHeader')
  s = [x for x in wire.struct_sites(prog, bh) if x.op == 'pack'][0]
  star = [a for a in s.args if isinstance(a, ast.Starred)]
  if not star and len(s.args) >= 3 and all(isinstance(a, ast.Subscript) and isinstance(a.value, ast.Name) for a in s.args[-3:]) \
     and len(set(a.value.id for a in s.args[-3:])) == 1 and [U(a.slice) for a in s.args[-3:]] == ['0', '1', '2']:
    # the three bytes passed one by one from a local: pack(.., b[0], b[1], b[2])
    star = [ast.Starred(value=ast.Name(id=s.args[-1].value.id, ctx=ast.Load()), ctx=ast.Load())]
  if len(star) == 1 and isinstance(star[0].value, ast.Name):
    # the three bytes held in a local first: bytes_ = self._EncodeTag(tag); pack(.., *bytes_)
    defs_ = [st.value for st in walk_no_nested(bh.node) if isinstance(st, ast.Assign) and len(st.targets) == 1 and U(st.targets[0]) == star[0].value.id]
    if len(defs_) == 1:
      star = [ast.Starred(value=defs_[0], ctx=ast.Load())]
  ok = (len(star) == 1 and isinstance(star[0].value, ast.Call) and call_attr(star[0].value) in ('_EncodeTag', 'Encode')
        and star[0].value.args and isinstance(star[0].value.args[0], ast.Name) and star[0].value.args[0].id == bh.params[1]) or (delegated and len(star) == 1)
  ctx.ob('C13.R4', bh, 'tag bytes come from the tag parameter', ok,
         'the three tag bytes are not *_EncodeTag(<tag parameter>)', why_tag)

  # reader: evaluate ReadHeader over header bits = [type byte const][24 symbolic tag bits]
  rh = prog.func(TSINK, 'ThriftMuxMessageSerializerSink.ReadHeader')
  mt = prog.cls(PROTO, 'MessageType')
  types = {}
  for name, v in mt.consts.items():
    try:
      types[name] = prog.const_eval(v, mt.module, mt)
    except ValueError:
      pass
  # reply types the client dispatches on: keys of _unmarshal_map + Rping
  init = prog.func(SER, 'MessageSerializer.__init__')
  dispatched = set()
  for n in ast.walk(init.node):
    if isinstance(n, ast.Assign) and any(unparse(t) == 'self._unmarshal_map' for t in n.targets) and isinstance(n.value, ast.Dict):
      for k in n.value.keys:
        d = dotted(k)
        if d and d.split('.')[-1] in types:
          dispatched.add(d.split('.')[-1])
  dispatched.add('Rping')
  ctx.floor('C13.R4', 'dispatched reply types', len(dispatched), 3)
  stream_param = rh.params[0]
  signed = None

  def special(st, env):
    # header, = unpack('!i', stream.read(4))   or   header = unpack('!i', stream.read(4))[0]
    val = st.value if isinstance(st, ast.Assign) else None
    sub0 = False
    if isinstance(val, ast.Subscript) and isinstance(val.value, ast.Call) and U(val.slice) == '0':
      val, sub0 = val.value, True
    if isinstance(st, ast.Assign) and isinstance(val, ast.Call) and (dotted(val.func) or '').split('.')[-1] == 'unpack':
      fmt = parse_format(val.args[0])
      t = st.targets[0]
      sizes = {'b': 1, 'B': 1, 'h': 2, 'H': 2, 'i': 4, 'I': 4, 'l': 4, 'L': 4}
      if fmt is None or fmt.order not in ('!', '>') or any(x.code not in sizes for x in fmt.fields):
        raise bitvec.Undecidable('header is not unpacked as big-endian integers')
      codes = [x.code for x in fmt.fields for _ in range(x.count)]
      if sum(sizes[c] for c in codes) != 4:
        raise bitvec.Undecidable('header fields do not cover the 4 header bytes')
      if sub0 and isinstance(t, ast.Name):
        t = ast.Tuple(elts=[t], ctx=ast.Store())
      if not (isinstance(t, ast.Tuple) and len(t.elts) == len(codes) and all(isinstance(x, ast.Name) for x in t.elts)) or (sub0 and len(codes) != 1):
        raise bitvec.Undecidable('unpack target shape')
      raw = env['__raw__']
      pos = 32
      for c, tgt in zip(codes, t.elts):
        n = sizes[c] * 8
        fb = raw.bits[pos - n:pos]
        pos -= n
        ext = fb[-1] if c.islower() else 0
        env[tgt.id] = bitvec.BV(fb + [ext] * (bitvec.W - n))
      return True
    return None

  for name in sorted(dispatched):
    T = types[name]
    tb = [(T >> i) & 1 for i in range(8)]
    raw = bitvec.BV([('t', i) for i in range(24)] + tb + [0] * (bitvec.W - 32))
    try:
      res = bitvec.Interp(lambda node: None).run(rh.node.body, {'__raw__': raw}, special)
      if not (isinstance(res, tuple) and len(res) == 2):
        raise bitvec.Undecidable('ReadHeader does not return (type, tag)')
      mtv, tagv = res
      ok_t = mtv.concrete and mtv.value() == T
      ok_g = tagv.bits == [('t', i) for i in range(24)] + [0] * (bitvec.W - 24)
      got = mtv.value() if mtv.concrete else repr(mtv)
      ctx.ob('C13.R4', rh, 'type %s (%d) read back' % (name, T), ok_t,
             'a frame written with type %d is read as type %s' % (T, got),
             'the reply is dispatched on the decoded type; a type that does not read back selects no/wrong unmarshaller')
      ctx.ob('C13.R4', rh, 'tag read back under type %s' % name, ok_g,
             'decoded tag is %r, not the 24 tag bits written' % tagv, why_tag)
    except bitvec.Undecidable as e:
      ctx.ob('C13.R4', rh, 'type %s (%d) read back' % (name, T), False,
             'cannot establish that ReadHeader inverts the header writer: %s' % e,
             'the reader must invert the writer for every reply type and tag')
  # protocol constants
  for k, v in MUX_TYPES.items():
    if k == 'BAD_Rerr':
      continue
    ctx.ob('C13.R5', mt, 'MessageType.%s == %d' % (k, v), types.get(k) == v,
           'MessageType.%s is %r' % (k, types.get(k)), 'message type numbers are fixed by the mux protocol', nontrivial=False)


def counted_while(fnode, callee):
  """A while loop that calls `callee` once per iteration, exactly <count> times, for a count unpacked from the wire:
  `v = n; while v > 0: callee(); v -= 1`   or   `i = 0; while i < n: callee(); i += 1`."""
  unpacked = set()
  for st in walk_no_nested(fnode):
    if isinstance(st, ast.Assign) and isinstance(st.value, ast.Call) and (dotted(st.value.func) or '').split('.')[-1] == 'unpack':
      for t in st.targets:
        unpacked |= set(x.id for x in ast.walk(t) if isinstance(x, ast.Name))
  body = [s_ for s_ in fnode.body]
  for k, st in enumerate(body):
    if not isinstance(st, ast.While) or st.orelse or not isinstance(st.test, ast.Compare) or len(st.test.ops) != 1:
      continue
    calls = [c for s2 in st.body for c in ast.walk(s2) if isinstance(c, ast.Call) and call_attr(c) == callee]
    top_calls = [s2 for s2 in st.body if isinstance(s2, ast.Expr) and isinstance(s2.value, ast.Call) and call_attr(s2.value) == callee]
    if len(calls) != 1 or len(top_calls) != 1 or any(isinstance(x, (ast.Break, ast.Continue, ast.Return)) for s2 in st.body for x in ast.walk(s2)):
      continue
    l, op, r_ = st.test.left, st.test.ops[0], st.test.comparators[0]
    steps = [s2 for s2 in st.body if isinstance(s2, ast.AugAssign) and isinstance(s2.target, ast.Name) and isinstance(s2.value, ast.Constant) and s2.value.value == 1]
    if len(steps) != 1 or len(st.body) != 2:
      continue
    v = steps[0].target.id
    init = [s2 for s2 in body[:k] if isinstance(s2, ast.Assign) and len(s2.targets) == 1 and isinstance(s2.targets[0], ast.Name) and s2.targets[0].id == v]
    if len(init) != 1:
      continue
    iv = init[0].value
    down = isinstance(steps[0].op, ast.Sub) and isinstance(l, ast.Name) and l.id == v and isinstance(op, (ast.Gt, ast.NotEq)) and isinstance(r_, ast.Constant) and r_.value == 0 \
      and isinstance(iv, ast.Name) and iv.id in unpacked
    up = isinstance(steps[0].op, ast.Add) and isinstance(l, ast.Name) and l.id == v and isinstance(op, (ast.Lt, ast.NotEq)) and isinstance(r_, ast.Name) and r_.id in unpacked \
      and isinstance(iv, ast.Constant) and iv.value == 0
    if down or up:
      return True
  return False


# ----------------------------------------------------------------------- R5
def r5_tables(ctx):
  prog = ctx.prog
  f = prog.func(SER, 'MessageSerializer._Marshal_Tdispatch')
  paths = enum_paths(ctx, f)
  for ev, ex in paths:
    if ex[0] == 'raise':
      continue
    seq = []
    for e in ev:
      if e.kind != 'call':
        continue
      a = call_attr(e.node)
      if a == '_WriteContext':
        seq.append('ctx')
      elif a == 'pack':
        fmt = parse_format(e.node.args[0]) if e.node.args else None
        if fmt is not None and [(x.code, x.count) for x in fmt.fields] in ([('h', 2)], [('h', 1), ('h', 1)]) and all(
            isinstance(x, ast.Constant) and x.value == 0 for x in e.node.args[1:]) and len(e.node.args) == 3:
          seq.append('dst0dtab0')
        else:
          seq.append('pack?')
      elif a == 'SerializeThriftCall':
        seq.append('thrift')
    ok = seq == ['ctx', 'dst0dtab0', 'thrift']
    ctx.ob('C13.R5', f, 'Tdispatch body order', ok, 'body is written as %s' % seq,
           'a dispatch body is contexts, then empty destination and delegation table (two zero int16), then the thrift call')
  # context dict = public properties + headers
  upd = [U(c.args[0]) for c in walk_no_nested(f.node) if isinstance(c, ast.Call) and call_attr(c) == 'update' and c.args]
  upd += [U(st.value.args[0]) for st in walk_no_nested(f.node) if isinstance(st, ast.Assign) and isinstance(st.value, ast.Call) and U(st.value.func) == 'dict' and len(st.value.args) == 1]
  msgp, hdrp = f.params[1], f.params[3]
  ctx.ob('C13.R5', f, 'contexts = public properties + headers',
         '%s.public_properties' % msgp in upd and hdrp in upd,
         'context sources are %s' % upd, 'caller properties, client id and deadline travel as contexts')
  pp = prog.func('scales/message.py', 'Message.public_properties')
  txt = U(pp.node)
  ctx.ob('C13.R5', pp, "public properties exclude '__' keys only", "startswith('__')" in txt and 'not' in txt,
         'public_properties filter changed', 'internal properties (deadline event, tag, endpoint) must not be sent; all others must', nontrivial=False)
  hdr_set = [st for st in walk_no_nested(f.node) if isinstance(st, ast.Assign) and 'MessageType' in U(st.targets[0])]
  ctx.ob('C13.R5', f, 'Tdispatch type header', any(U(st.value).endswith('MessageType.Tdispatch') for st in hdr_set),
         'message type header is not Tdispatch', 'the frame type written by the transport is taken from this header')
  g = prog.func(SER, 'MessageSerializer._Marshal_Tdiscarded')
  hdr_set = [st for st in walk_no_nested(g.node) if isinstance(st, ast.Assign) and 'MessageType' in U(st.targets[0])]
  ctx.ob('C13.R5', g, 'Tdiscarded type header', any(U(st.value).endswith('MessageType.Tdiscarded') for st in hdr_set),
         'message type header is not Tdiscarded', 'the frame type written by the transport is taken from this header')
  # Tdiscarded: BBB of Tag(msg.which).Encode() before the reason
  seq = []
  for c in sorted([c for c in walk_no_nested(g.node) if isinstance(c, ast.Call) and call_attr(c) == 'write'], key=lambda c: c.lineno):
    a = c.args[0] if c.args else None
    if isinstance(a, ast.Call) and call_attr(a) == 'pack':
      fmt = parse_format(a.args[0])
      star = [x for x in a.args if isinstance(x, ast.Starred)]
      if fmt and sum((x.count or 0) for x in fmt.fields if x.code == 'B') == 3 and star and 'which' in U(star[0]):
        seq.append('tag')
      else:
        seq.append('pack?')
    elif isinstance(a, ast.Call) and call_attr(a) == 'encode':
      seq.append('reason')
    else:
      seq.append('?')
  ctx.ob('C13.R5', g, 'Tdiscarded body order', seq == ['tag', 'reason'], 'body is %s' % seq,
         'a discard body is the 3-byte discarded tag then the reason')

  # _WriteContext: count of the very dict iterated, then per entry key, value
  w = prog.func(SER, 'MessageSerializer._WriteContext')
  dparam = w.params[0]
  loops = [n for n in walk_no_nested(w.node) if isinstance(n, ast.For)]
  ok_iter = len(loops) == 1 and U(loops[0].iter) in ('%s.items()' % dparam, 'list(%s.items())' % dparam, 'sorted(%s.items())' % dparam)
  ctx.ob('C13.R5', w, 'entries iterate the counted dict', ok_iter, 'loop iterates %s' % (U(loops[0].iter) if loops else None),
         'the entry count and the entries written must come from the same dictionary')
  first = [c for c in walk_no_nested(w.node) if isinstance(c, ast.Call) and call_attr(c) == 'pack' and c.lineno < (loops[0].lineno if loops else 10**9)]
  okc = False
  for c in first:
    fmt = parse_format(c.args[0])
    if fmt and [(x.code, x.count) for x in fmt.fields] == [('h', 1)] and len(c.args) == 2 and U(c.args[1]) == 'len(%s)' % dparam:
      okc = True
  ctx.ob('C13.R5', w, 'context count prefix', okc, 'no int16 count len(%s) before the entries' % dparam,
         'the contexts table starts with its int16 entry count')
  # ... on every path that returns, the empty table included (its count 0 is two bytes the decoder reads)
  n_cp = 0
  for ev_, ex_ in enum_paths(ctx, w, unroll=1):
    if ex_[0] == 'raise':
      continue
    n_cp += 1
    packs = [e.node for e in ev_ if e.kind == 'call' and call_attr(e.node) == 'pack']
    first_ok = False
    if packs:
      fmt = parse_format(packs[0].args[0]) if packs[0].args else None
      first_ok = bool(fmt) and [(x.code, x.count) for x in fmt.fields] == [('h', 1)] and len(packs[0].args) == 2 and U(packs[0].args[1]) == 'len(%s)' % dparam
    ctx.ob('C13.R5', w, 'every returning path writes the entry count first', first_ok,
           'a path of _WriteContext returns %s' % ('after writing %s first' % U(packs[0]) if packs else 'without writing anything (an empty table still has its count)'),
           'the contexts table starts with its int16 entry count, also when it is empty')
  ctx.floor('C13.R5', 'returning paths of _WriteContext', n_cp, 1)
  # per-iteration paths: exactly (key, value) packs or raise
  if loops:
    ipaths = enum_paths(ctx, w, body=loops[0].body)
    flat = []
    for ev, ex in ipaths:
      if ex[0] == 'raise':
        continue
      flat.extend(expand_events(ctx, w, ev, 2, lambda t: t.module.rel == SER))
    def layout(x):
      # bytes produced by an expression handed to write(): struct fields of pack(...), raw byte strings ('ns'), concatenations
      if isinstance(x, ast.Call) and call_attr(x) == 'pack' or isinstance(x, ast.Call) and (dotted(x.func) or '').split('.')[-1] == 'pack':
        fmt = parse_format(x.args[0])
        return [''.join('%s%s' % ('' if f_.count in (1,) else ('n' if f_.count is None else f_.count), f_.code) for f_ in fmt.fields) if fmt else '?'], [x]
      if isinstance(x, ast.BinOp) and isinstance(x.op, ast.Add):
        l, lp = layout(x.left)
        r_, rp_ = layout(x.right)
        return [''.join(l + r_)], lp + rp_
      if isinstance(x, (ast.Name, ast.Attribute)):
        return ['ns'], []
      return ['?'], []
    for ev in flat:
      writes = [e.node for e in ev if e.kind == 'call' and call_attr(e.node) == 'write' and e.node.args]
      shapes, packs = [], []
      for c in writes:
        sh, pk = layout(c.args[0])
        shapes += sh
        packs += pk
      if not writes:
        packs = [e.node for e in ev if e.kind == 'call' and call_attr(e.node) == 'pack']
        shapes = [layout(c)[0][0] for c in packs]
      ok = shapes in (['hns', 'hns'], ['hns', 'h', '2q'], ['hns', 'h', 'qq'])
      if ok and len(shapes) == 3:
        # constant length 16 == calcsize('!qq')
        c = packs[1]
        okl = isinstance(c.args[1], ast.Constant) and c.args[1].value == 16
        ctx.ob('C13.R5', w, 'deadline value length', okl, 'deadline value length prefix is %s, not 16' % U(c.args[1]),
               'the deadline context value is two int64 = 16 bytes')
      ctx.ob('C13.R5', w, 'context entry shape ' + '/'.join(shapes), ok, 'entry written as %s' % shapes,
             'each context entry is key length+key, value length+value')
  # Rdispatch reader
  r = prog.func(SER, 'MessageSerializer._Unmarshal_Rdispatch')
  un = [s for s in wire.struct_sites(prog, r) if s.op == 'unpack']
  ok = len(un) >= 1 and un[0].fmt is not None and [(x.code, x.count) for x in un[0].fmt.fields] == [('b', 1), ('h', 1)]
  ctx.ob('C13.R5', r, 'Rdispatch header = status byte + context count', ok, 'first unpack is %s' % (un[0].fmt.text if un and un[0].fmt else None),
         'an Rdispatch body starts with a status byte and an int16 context count')
  rc = prog.func(SER, 'MessageSerializer._ReadContext')
  bufp = rc.params[-1]
  ok = False
  for ev, ex in enum_paths(ctx, rc):
    if ex[0] != 'ret':
      continue
    ops = []
    for i, e in enumerate(ev):
      if e.kind == 'call' and call_attr(e.node) == 'read' and U(e.node.func.value) == bufp:
        a = resolved_text(ev, i, e.node.args[0]) if e.node.args else ''
        ops.append('read2' if a == '2' else 'readN')
    # two length-prefixed fields: (read 2 -> unpack h, read that many) x 2
    if ops == ['read2', 'readN', 'read2', 'readN']:
      hs = [s_ for s_ in wire.struct_sites(prog, rc) if s_.fmt and [(x.code, x.count) for x in s_.fmt.fields] == [('h', 1)]]
      ok = bool(hs)
  ctx.ob('C13.R5', rc, 'reply context skip = two length-prefixed fields', ok, 'shape of _ReadContext changed',
         'each reply context is a length-prefixed key and a length-prefixed value; skipping anything else misplaces the payload')
  loops = [n for n in walk_no_nested(r.node) if isinstance(n, ast.For)]
  okl = any(call_attr(c) == '_ReadContext' for l in loops for c in ast.walk(l) if isinstance(c, ast.Call)) and any(
    'nctx' in U(l.iter) or U(l.iter).startswith('range(') for l in loops)
  if not okl:
    okl = counted_while(r.node, '_ReadContext')
  ctx.ob('C13.R5', r, 'all reply contexts skipped before the payload', okl, 'context skip loop missing',
         'the thrift payload starts after the last reply context')
  # status dispatch
  rp = enum_paths(ctx, r)
  seen = {}
  for ev, ex in rp:
    conds = FACTS(ev)
    calls = [call_name(e.node) for e in ev if e.kind == 'call']
    key = None
    if ('status==Rstatus.OK', True) in conds:
      key = 'OK'
      ok = any(c and c.endswith('DeserializeThriftCall') for c in calls)
    elif ('status==Rstatus.NACK', True) in conds:
      key = 'NACK'
      ok = any(c == 'ServerError' for c in calls) and not any(c and c.endswith('DeserializeThriftCall') for c in calls)
    elif ('status==Rstatus.OK', False) in conds:
      key = 'ERROR'
      ok = any(c == 'ServerError' for c in calls) and any(c and c.endswith('.decode') for c in calls)
    if key:
      seen[key] = seen.get(key, True) and ok
  for key in ('OK', 'NACK', 'ERROR'):
    ctx.ob('C13.R5', r, 'Rdispatch status %s handling' % key, seen.get(key, False), 'status %s is not handled as specified' % key,
           'OK carries the thrift reply, NACK and ERROR are server errors')
  rs = prog.cls(PROTO, 'Rstatus')
  vals = dict((k, prog.const_eval(v, rs.module, rs)) for k, v in rs.consts.items())
  ctx.ob('C13.R5', rs, 'Rstatus table', vals.get('OK') == 0 and vals.get('ERROR') == 1 and vals.get('NACK') == 2, 'Rstatus constants are %s' % vals,
         'status numbers are fixed by the mux protocol', nontrivial=False)
  # marshal / unmarshal maps
  init = prog.func(SER, 'MessageSerializer.__init__')
  maps = {}
  for n in ast.walk(init.node):
    if isinstance(n, ast.Assign) and isinstance(n.value, ast.Dict):
      maps[U(n.targets[0])] = dict((U(k), U(v)) for k, v in zip(n.value.keys, n.value.values))
  mm = maps.get('self._marshal_map', {})
  um = maps.get('self._unmarshal_map', {})
  ctx.ob('C13.R5', init, 'marshal map', mm.get('MethodCallMessage') == 'self._Marshal_Tdispatch' and mm.get('MethodDiscardMessage') == 'self._Marshal_Tdiscarded',
         'marshal map is %s' % mm, 'calls are Tdispatch frames, discards are Tdiscarded frames')
  ctx.ob('C13.R5', init, 'unmarshal map', um.get('MessageType.Rdispatch') == 'self._Unmarshal_Rdispatch' and um.get('MessageType.Rerr') == 'self._Unmarshal_Rerror',
         'unmarshal map is %s' % um, 'Rdispatch and Rerr replies select their decoders by type')


# ----------------------------------------------------------------------- R6
def scale_of(expr, var, env=None):
  """Abstract value of a numeric expression over one input `var`: (scale, granularity) meaning
  value = scale * var rounded to a multiple of `granularity` (0 = exact).  None = not of that shape."""
  env = env or {}
  if isinstance(expr, ast.Name):
    if expr.id == var:
      return (1, 0)
    if expr.id in env:
      return scale_of(env[expr.id], var, env)
    return None
  if isinstance(expr, ast.Constant) and isinstance(expr.value, (int, float)) and not isinstance(expr.value, bool):
    return ('const', expr.value)
  if isinstance(expr, ast.Call) and len(expr.args) == 1 and not expr.keywords:
    fn = (dotted(expr.func) or '').split('.')[-1]
    a = scale_of(expr.args[0], var, env)
    if a is None or a[0] == 'const':
      return a
    if fn in ('Long', 'int', 'long', 'floor', 'trunc'):
      return (a[0], max(a[1], 1))
    if fn == 'float':
      return a
    return None
  if isinstance(expr, ast.BinOp) and isinstance(expr.op, ast.Mult):
    l, r = scale_of(expr.left, var, env), scale_of(expr.right, var, env)
    if l is None or r is None:
      return None
    if l[0] == 'const' and r[0] == 'const':
      return ('const', l[1] * r[1])
    if l[0] == 'const':
      l, r = r, l
    if r[0] != 'const':
      return None
    return (l[0] * r[1], l[1] * abs(r[1]))
  if isinstance(expr, ast.BinOp) and isinstance(expr.op, ast.Pow):
    l, r = scale_of(expr.left, var, env), scale_of(expr.right, var, env)
    if l and r and l[0] == 'const' and r[0] == 'const':
      return ('const', l[1] ** r[1])
  return None


def r6_deadline(ctx):
  prog = ctx.prog
  why = ('the second int64 of the com.twitter.finagle.Deadline context must equal the supplied deadline in nanoseconds; truncating before scaling, '
         'a different scale or a rewritten value makes an independent decoder recover a different deadline')
  init = prog.func('scales/message.py', 'Deadline.__init__')
  par = init.params[1]
  env = {}
  attrs = {}
  for st in walk_no_nested(init.node):
    if isinstance(st, ast.Assign) and len(st.targets) == 1:
      t = st.targets[0]
      if isinstance(t, ast.Name):
        env[t.id] = st.value
      elif isinstance(t, ast.Attribute) and U(t.value) == 'self':
        attrs.setdefault(t.attr, []).append(st.value)
  tv = attrs.get('_timeout', [])
  sc = scale_of(tv[0], par, env) if len(tv) == 1 else None
  ctx.ob('C13.R6', init, '_timeout = trunc(10^9 * seconds)', sc is not None and sc[0] == 10 ** 9 and sc[1] <= 1,
         '_timeout is %s: scale/granularity %s (needs scale 1e9 with granularity <= 1 ns)' % ([U(x) for x in tv], sc), why)
  ts = attrs.get('_ts', [])
  ok = False
  if len(ts) == 1:
    calls = [c for c in ast.walk(ts[0]) if isinstance(c, ast.Call) and (dotted(c.func) or '').endswith('time.time')]
    if len(calls) == 1:
      marker = ast.parse(U(ts[0]).replace(U(calls[0]), '__now'), mode='eval').body
      sc2 = scale_of(marker, '__now', env)
      ok = sc2 is not None and sc2[0] == 10 ** 9
  ctx.ob('C13.R6', init, '_ts = now in nanoseconds', ok, '_ts is %s' % [U(x) for x in ts], why)
  # the writer packs (ts, timeout) as two int64 after the length 16
  wc = prog.func(SER, 'MessageSerializer._WriteContext')
  found = 0
  for n in walk_no_nested(wc.node):
    if isinstance(n, ast.If) and isinstance(n.test, ast.Call) and call_name(n.test) == 'isinstance' and U(n.test.args[1]) == 'Deadline':
      v = U(n.test.args[0])
      packs = [c for st in n.body for c in ast.walk(st) if isinstance(c, ast.Call) and call_name(c) == 'pack']
      seq = [(U(c.args[0]), [U(a) for a in c.args[1:]]) for c in packs]
      flat_fmt = ''.join(f.strip('\'"').lstrip('!>') for f, _ in seq)
      flat_args = [a for _, args in seq for a in args]
      okw = flat_fmt == 'hqq' and flat_args == ['16', '%s._ts' % v, '%s._timeout' % v] and all(f.strip('\'"')[:1] in '!>' for f, _ in seq)
      found += 1
      ctx.ob('C13.R6', wc, 'Deadline value = length 16, then !qq (_ts, _timeout)', okw, 'Deadline branch packs %s' % seq, why)
  ctx.ob('C13.R6', wc, 'the context writer has a Deadline branch', found == 1, 'Deadline branches: %d' % found, why)
  # the sink passes the message's deadline unmodified
  ap = prog.func(TSINK, 'ThriftMuxMessageSerializerSink.AsyncProcessRequest') if prog.try_func(TSINK, 'ThriftMuxMessageSerializerSink.AsyncProcessRequest') else None
  if ap is None:
    cands = [f for f in prog.all_funcs if f.module.rel == TSINK and f.name == 'AsyncProcessRequest' and 'Deadline(' in U(f.node)]
    if len(cands) != 1:
      raise AnalysisError('C13.R6: serializer sink AsyncProcessRequest not found')
    ap = cands[0]
  n = 0
  for ev, ex in enum_paths(ctx, ap):
    for i, e in enumerate(ev):
      if e.kind == 'call' and call_name(e.node) == 'Deadline':
        n += 1
        arg = resolved_text(ev, i, e.node.args[0]) if e.node.args else None
        okd = arg is not None and arg.replace(' ', '') in ('msg.properties.get(Deadline.KEY)', 'msg.properties[Deadline.KEY]', 'msg.properties.get(Deadline.KEY,None)')
        ctx.ob('C13.R6', ap, 'Deadline(<the Deadline.KEY property>)', okd, 'Deadline built from %s' % arg, why)
  ctx.ob('C13.R6', ap, 'a deadline header is built', n >= 1, 'no Deadline(...) construction', why)
  hdr = [st for st in walk_no_nested(ap.node) if isinstance(st, ast.Assign) and isinstance(st.targets[0], ast.Subscript) and isinstance(st.value, ast.Call) and call_name(st.value) == 'Deadline']
  ctx.ob('C13.R6', ap, "stored under 'com.twitter.finagle.Deadline'", len(hdr) == 1 and U(hdr[0].targets[0].slice).strip('\'"') == 'com.twitter.finagle.Deadline',
         'header key is %s' % [U(h.targets[0].slice) for h in hdr], why)
