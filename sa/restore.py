"""Structure restoration against the reference tree (DESIGN.md 11.3, steps 15-18): undoes refactorings that
change *where* a piece of code lives, so that the anchored rules find it again:

 R1  a private function that was renamed, or moved between a class and the module level (method/staticmethod
     <-> module function), is renamed/moved back (matched by body similarity against the reference source);
 R2  a nested closure of the reference tree that became a private method / module function (called directly
     or bound with functools.partial) becomes a nested closure again;
 R3  a private helper of the reference tree that was merged into its caller(s) is outlined again (statement
     level: the unmatched span of the caller; expression level: the differing sub-expression).

Every step is a behaviour-preserving source transformation of the analysed tree; nothing is executed.  A step
that cannot establish its preconditions leaves the tree alone (the anchored rule then reports the missing
anchor as an analysis error, never as a violation).
"""
import ast
import copy
import difflib
import re

from .normalize import (load_baseline, own_nodes, params_of, local_defs_fp, _Rename, _is_log_stmt, _replace_node,
                        _Subst, _targets)

FN = (ast.FunctionDef, ast.AsyncFunctionDef)


# ---------------------------------------------------------------- helpers
def _strip_doc(body):
  return [s for s in body if not (isinstance(s, ast.Expr) and isinstance(s.value, ast.Constant) and isinstance(s.value.value, str))]


def fn_tokens(fnode):
  """Abstract token sequence of a function body (locals/params abstracted, logging and docstrings dropped)."""
  params = set(params_of(fnode))
  _, locs = local_defs_fp(fnode)
  names = params | set(n for n, _ in locs)
  toks = []

  def walk(n):
    if isinstance(n, (ast.Load, ast.Store, ast.Del)):
      return
    if isinstance(n, ast.stmt) and _is_log_stmt(n):
      return
    if isinstance(n, ast.Name):
      toks.append('L' if n.id in names else n.id)
      return
    if isinstance(n, ast.arg):
      toks.append('L')
      return
    if isinstance(n, ast.Attribute):
      walk(n.value)
      toks.append('.' + n.attr)
      return
    if isinstance(n, ast.Constant):
      toks.append(repr(n.value))
      return
    toks.append(type(n).__name__)
    for ch in ast.iter_child_nodes(n):
      walk(ch)
  for st in _strip_doc(fnode.body):
    walk(st)
  return toks


def similarity(a, b):
  ta, tb = fn_tokens(a), fn_tokens(b)
  if not ta and not tb:
    return 1.0
  return difflib.SequenceMatcher(None, ta, tb, autojunk=False).ratio()


def _is_static(d):
  return any(ast.unparse(x) == 'staticmethod' for x in d.decorator_list)


def _plain(d):
  return all(ast.unparse(x) == 'staticmethod' for x in d.decorator_list)


def collect(tree):
  """{qualname: (node, container list, class node or None)} of module-level and class-level functions."""
  out = {}

  def walk(body, prefix, cls):
    for st in body:
      if isinstance(st, ast.ClassDef):
        walk(st.body, prefix + st.name + '.', st)
      elif isinstance(st, FN):
        key = st.name
        if any(ast.unparse(d).endswith('.setter') for d in st.decorator_list):
          key = st.name + '.setter'
        out[prefix + key] = (st, body, cls)
  walk(tree.body, '', None)
  return out


def collect_classes(tree):
  out = {}

  def walk(body, prefix):
    for st in body:
      if isinstance(st, ast.ClassDef):
        out[prefix + st.name] = (st, body)
        walk(st.body, prefix + st.name + '.')
  walk(tree.body, '')
  return out


def base_fn(b, rel, q):
  src = b.get('sources', {}).get(rel + '::' + q)
  if not src:
    return None
  try:
    return ast.parse(src).body[0]
  except Exception:
    return None


def baseline_names(b):
  key = '_names'
  if key not in b:
    s = set()
    for rel, qs in b.get('inventory', {}).items():
      for q in qs:
        s.add(q.split('.')[-1])
    for q in b.get('functions', {}):
      s.add(q.split('::')[1].split('.')[-1])
    for c, attrs in b.get('classes', {}).items():
      for a, _ in attrs:
        s.add(a)
    b[key] = s
  return b[key]


def _enclosing_map(tree):
  """id(node) -> (innermost enclosing top/class-level function, its class) for every node inside functions."""
  m = {}

  def mark(fn, cls):
    for n in ast.walk(fn):
      m[id(n)] = (fn, cls)

  def walk(body, cls):
    for st in body:
      if isinstance(st, ast.ClassDef):
        walk(st.body, st)
      elif isinstance(st, FN):
        mark(st, cls)
  walk(tree.body, None)
  return m


# ---------------------------------------------------------------- R1
def restore_renamed(trees, stats):
  b = load_baseline()
  inv = b.get('inventory', {})
  if not b.get('sources'):
    return
  bnames = baseline_names(b)
  renames = {}     # new name -> old name, package wide (attribute/def renames)
  for rel, tree in trees.items():
    known = set(inv.get(rel, []))
    if not known:
      continue
    _restore_classes(tree, rel, b, stats)
    cur = collect(tree)
    missing = [q for q in inv.get(rel, []) if q not in cur and not q.endswith('.setter')]
    new = [q for q in cur if q not in known and not q.endswith('.setter') and _plain(cur[q][0])
           and not (q.split('.')[-1].startswith('__') and q.split('.')[-1].endswith('__'))]
    if not missing or not new:
      continue
    scores = []
    for bq in missing:
      bn = base_fn(b, rel, bq)
      if bn is None:
        continue
      for cq in new:
        s = similarity(bn, cur[cq][0])
        if bq.split('.')[-1].strip('_') == cq.split('.')[-1].strip('_'):
          s += 0.35
        if '.'.join(bq.split('.')[:-1]) == '.'.join(cq.split('.')[:-1]):
          s += 0.05
        scores.append((s, bq, cq))
    scores.sort(key=lambda x: -x[0])
    used_b, used_c = set(), set()
    for s, bq, cq in scores:
      if s < 0.62 or bq in used_b or cq in used_c:
        continue
      # the match must be clearly the best one for both sides
      rivals = [s2 for s2, b2, c2 in scores if (b2 == bq) != (c2 == cq) and b2 not in used_b and c2 not in used_c]
      if rivals and max(rivals) > s - 0.08:
        continue
      if _restore_one(tree, rel, b, bq, cq, cur, renames, bnames, stats):
        used_b.add(bq)
        used_c.add(cq)
  if renames:
    for rel, tree in trees.items():
      for n in ast.walk(tree):
        if isinstance(n, ast.Attribute) and n.attr in renames:
          n.attr = renames[n.attr]
        elif isinstance(n, FN) and n.name in renames:
          n.name = renames[n.name]
    stats['methods_renamed'] = stats.get('methods_renamed', 0) + len(renames)


def _restore_classes(tree, rel, b, stats):
  """A nested private class of the reference tree that now lives at module level (same name) moves back."""
  want = b.get('class_inventory', {}).get(rel, [])
  cur = collect_classes(tree)
  for q in want:
    if q in cur or '.' not in q:
      continue
    outer, name = q.rsplit('.', 1)
    if name in cur and outer in cur and not any(x.split('.')[-1] == name and x != name for x in cur):
      node, body = cur[name]
      body.remove(node)
      onode = cur[outer][0]
      onode.body.append(node)
      for n in ast.walk(tree):
        for fld, val in ast.iter_fields(n):
          if isinstance(val, ast.Name) and val.id == name and isinstance(val.ctx, ast.Load):
            setattr(n, fld, ast.copy_location(ast.Attribute(value=ast.Name(id='self' if _in_method_of(tree, val, onode) else outer, ctx=ast.Load()), attr=name, ctx=ast.Load()), val))
          elif isinstance(val, list):
            for i, v in enumerate(val):
              if isinstance(v, ast.Name) and v.id == name and isinstance(v.ctx, ast.Load):
                val[i] = ast.copy_location(ast.Attribute(value=ast.Name(id='self' if _in_method_of(tree, v, onode) else outer, ctx=ast.Load()), attr=name, ctx=ast.Load()), v)
      ast.fix_missing_locations(tree)
      stats['classes_moved'] = stats.get('classes_moved', 0) + 1


def _in_method_of(tree, node, cls):
  for m in cls.body:
    if isinstance(m, FN) and not _is_static(m) and params_of(m)[:1] == ['self']:
      if any(x is node for x in ast.walk(m)):
        return True
  return False


def _name_refs(tree, name):
  """All Name loads of `name` in the module with their parent node and field."""
  out = []
  for p in ast.walk(tree):
    for fld, val in ast.iter_fields(p):
      if isinstance(val, ast.Name) and val.id == name and isinstance(val.ctx, ast.Load):
        out.append((p, fld, None, val))
      elif isinstance(val, list):
        for i, v in enumerate(val):
          if isinstance(v, ast.Name) and v.id == name and isinstance(v.ctx, ast.Load):
            out.append((p, fld, i, v))
  return out


def _set(p, fld, i, new):
  if i is None:
    setattr(p, fld, new)
  else:
    getattr(p, fld)[i] = new


def _restore_one(tree, rel, b, bq, cq, cur, renames, bnames, stats):
  bnode = base_fn(b, rel, bq)
  cnode, cbody, ccls = cur[cq]
  bcont, bname = ('.'.join(bq.split('.')[:-1]), bq.split('.')[-1])
  ccont, cname = ('.'.join(cq.split('.')[:-1]), cq.split('.')[-1])
  if bcont == ccont:
    if cname in bnames or cname in renames:
      return False
    if len(params_of(bnode)) != len(params_of(cnode)):
      return False      # a pure rename keeps the parameter list
    renames[cname] = bname
    if not bcont:
      for p, fld, i, v in _name_refs(tree, cname):
        v.id = bname
    cnode.name = bname
    return True
  classes = collect_classes(tree)
  if bcont and not ccont and bcont in classes:
    # method of the reference tree now a module-level function
    cls = classes[bcont][0]
    bp, cp = params_of(bnode), params_of(cnode)
    b_static = _is_static(bnode)
    refs = _name_refs(tree, cname)
    encl = _enclosing_map(tree)

    def recv_for(v):
      fn, k = encl.get(id(v), (None, None))
      if fn is not None and k is cls and not _is_static(fn) and params_of(fn)[:1] == ['self']:
        return 'self'
      return cls.name if '.' not in bcont else None
    want_own = len(bp) if b_static else len(bp) - 1
    if len(cp) > want_own and refs and all(isinstance(p, ast.Call) and fld == 'func' and recv_for(v) == 'self' for p, fld, i, v in refs):
      # parameters that every call site binds to one and the same `self.<attr>` expression are read from self again
      fold = {}
      for k, pn in enumerate(cp):
        texts = set()
        for p, fld, i, v in refs:
          a = p.args[k] if k < len(p.args) and not any(isinstance(x, ast.Starred) for x in p.args[:k + 1]) else None
          if a is None:
            a = dict((kw.arg, kw.value) for kw in p.keywords).get(pn)
          texts.add(ast.unparse(a) if a is not None else None)
        if len(texts) == 1:
          t = list(texts)[0]
          if t and t.startswith('self.') and all(x.isidentifier() for x in t.split('.')):
            fold[pn] = t
      stores = _stores(cnode.body)
      fold = dict((pn, t) for pn, t in fold.items() if pn not in stores)
      if fold and len(cp) - len(fold) == want_own and not cnode.args.defaults:
        mapping = dict((pn, ast.parse(t, mode='eval').body) for pn, t in fold.items())
        cnode.body = [_Subst(mapping).visit(s_) for s_ in cnode.body]
        for p, fld, i, v in refs:
          keep = [a for k, a in enumerate(p.args) if cp[k] not in fold]
          p.args = keep
          p.keywords = [kw for kw in p.keywords if kw.arg not in fold]
        cnode.args.args = [a for a in cnode.args.args if a.arg not in fold]
        cp = params_of(cnode)
    if b_static and len(bp) == len(cp):
      plan = []
      for p, fld, i, v in refs:
        r = recv_for(v)
        if r is None:
          return False
        plan.append((p, fld, i, v, r))
      for p, fld, i, v, r in plan:
        _set(p, fld, i, ast.copy_location(ast.Attribute(value=ast.Name(id=r, ctx=ast.Load()), attr=bname, ctx=ast.Load()), v))
      cnode.decorator_list = [ast.Name(id='staticmethod', ctx=ast.Load())]
    elif not b_static and len(cp) == len(bp) and cp:
      # the first parameter plays self: a reference is a call new(self, ...) from a method of the class, a call
      # new(<expr rooted at the first parameter>, ...) inside the function itself (recursion on a member of
      # the same type), functools.partial(new, self, ...), or a bare reference (-> the unbound Cls.old)
      plan = []
      seen_self = False

      def rooted(x):
        while isinstance(x, (ast.Attribute, ast.Subscript)):
          x = x.value
        return isinstance(x, ast.Name) and x.id == cp[0]
      for p, fld, i, v in refs:
        inside = any(x is v for x in ast.walk(cnode))
        if isinstance(p, ast.Call) and fld == 'func' and p.args and isinstance(p.args[0], ast.Name) and p.args[0].id == 'self' and recv_for(v) == 'self':
          plan.append(('call', p, v))
          seen_self = True
        elif isinstance(p, ast.Call) and fld == 'func' and p.args and inside and rooted(p.args[0]):
          plan.append(('call', p, v))
        elif (isinstance(p, ast.Call) and fld == 'args' and i == 0 and ast.unparse(p.func) in ('functools.partial', 'partial') and len(p.args) >= 2
              and isinstance(p.args[1], ast.Name) and p.args[1].id == 'self' and recv_for(v) == 'self'):
          plan.append(('partial', p, v))
          seen_self = True
        elif not (isinstance(p, ast.Call) and fld == 'func') and '.' not in bcont:
          plan.append(('bare', (p, fld, i), v))
        else:
          return False
      if not seen_self:
        return False
      for kind, p, v in plan:
        if kind == 'call':
          x = p.args.pop(0)
          p.func = ast.copy_location(ast.Attribute(value=x, attr=bname, ctx=ast.Load()), v)
        elif kind == 'partial':
          x = p.args.pop(1)
          p.args[0] = ast.copy_location(ast.Attribute(value=x, attr=bname, ctx=ast.Load()), v)
        else:
          _set(p[0], p[1], p[2], ast.copy_location(ast.Attribute(value=ast.Name(id=cls.name, ctx=ast.Load()), attr=bname, ctx=ast.Load()), v))
      if cp[0] != 'self':
        r_ = _Rename({cp[0]: 'self'})
        cnode.body = [r_.visit(s_) for s_ in cnode.body]
        (cnode.args.posonlyargs + cnode.args.args)[0].arg = 'self'
    elif not b_static and len(cp) == len(bp) - 1:
      plan = []
      for p, fld, i, v in refs:
        if recv_for(v) != 'self':
          return False
        plan.append((p, fld, i, v))
      for p, fld, i, v in plan:
        _set(p, fld, i, ast.copy_location(ast.Attribute(value=ast.Name(id='self', ctx=ast.Load()), attr=bname, ctx=ast.Load()), v))
      cnode.args.args.insert(0, ast.arg(arg='self'))
    else:
      return False
    cbody.remove(cnode)
    cnode.name = bname
    cls.body.append(cnode)
    ast.fix_missing_locations(tree)
    stats['functions_moved'] = stats.get('functions_moved', 0) + 1
    return True
  return False


# ---------------------------------------------------------------- R0
def restore_lock_decorators(tree, rel, stats):
  """A reference decorator of the form `with <X>: return fn(self, ...)` that was replaced by wrapping the whole
  body of the function in `with <X>:` is put back (and its definition re-added when it was deleted)."""
  b = load_baseline()
  inv = b.get('inventory', {}).get(rel, [])
  if not inv:
    return
  cur = collect(tree)
  for q in inv:
    if q not in cur:
      continue
    fb = base_fn(b, rel, q)
    if fb is None or not fb.decorator_list:
      continue
    node = cur[q][0]
    have = [ast.unparse(d) for d in node.decorator_list]
    for d in fb.decorator_list:
      dn = ast.unparse(d)
      if dn in have or not isinstance(d, ast.Name):
        continue
      db = base_fn(b, rel, dn)
      if db is None:
        continue
      # decorator shape: def D(fn): def wrapper(self, *a, **k): with X: return fn(self, *a, **k); return wrapper
      inner = [n for n in _strip_doc(db.body) if isinstance(n, FN)]
      if len(inner) != 1:
        continue
      wb = _strip_doc(inner[0].body)
      if not (len(wb) == 1 and isinstance(wb[0], ast.With) and len(wb[0].body) == 1 and isinstance(wb[0].body[0], ast.Return)
              and isinstance(wb[0].body[0].value, ast.Call) and isinstance(wb[0].body[0].value.func, ast.Name)
              and wb[0].body[0].value.func.id in params_of(db)):
        continue
      ctx_text = ','.join(ast.unparse(i.context_expr) for i in wb[0].items)
      body = _strip_doc(node.body)
      if not (len(body) == 1 and isinstance(body[0], ast.With) and ','.join(ast.unparse(i.context_expr) for i in body[0].items) == ctx_text
              and all(i.optional_vars is None for i in body[0].items)):
        continue
      node.body = [s_ for s_ in node.body if s_ not in body] + list(body[0].body)
      node.decorator_list.append(ast.Name(id=dn, ctx=ast.Load()))
      if dn not in cur and not any(isinstance(s_, FN) and s_.name == dn for s_ in tree.body):
        # after the imports
        k = 0
        for k, s_ in enumerate(tree.body):
          if not isinstance(s_, (ast.Import, ast.ImportFrom)) and not (isinstance(s_, ast.Expr) and isinstance(s_.value, ast.Constant)):
            break
        tree.body.insert(k, db)
      ast.fix_missing_locations(tree)
      stats['decorators_restored'] = stats.get('decorators_restored', 0) + 1


# ---------------------------------------------------------------- R2
def _nested_quals(fnode, prefix):
  """{qualname: node} of the functions nested (at any depth) in fnode."""
  out = {}
  for n in own_nodes(fnode):
    if isinstance(n, FN):
      out[prefix + '.' + n.name] = n
      out.update(_nested_quals(n, prefix + '.' + n.name))
  return out


def _scope_names(fn):
  params, locs = local_defs_fp(fn)
  return set(params) | set(n for n, _ in locs)


def restore_closures(tree, rel, stats):
  """A nested function of the reference tree that became a private method / module function whose every
  reference sits in the function that used to hold it: turned back into the nested function (bound
  arguments that are stable names of the enclosing scope become captured variables again)."""
  b = load_baseline()
  known = set(b.get('inventory', {}).get(rel, []))
  if not known or not b.get('sources'):
    return
  for _round in range(4):
    if not _restore_closure_once(tree, rel, b, known, stats):
      break


def _restore_closure_once(tree, rel, b, known, stats):
  cur = collect(tree)
  encl = _enclosing_map(tree)
  qual_of = dict((id(v[0]), q) for q, v in cur.items())
  cands_m = [(mq, M, mbody, mcls, None) for mq, (M, mbody, mcls) in cur.items()]
  bfuncs = b.get('functions', {})
  for gq_, (G_, _, gcls_) in cur.items():
    if gq_ not in known:
      continue
    # new nested functions (another nesting level than in the reference tree)
    def nested_of(fn, prefix):
      for blk in [fn.body] + [getattr(n, f) for n in own_nodes(fn) if not isinstance(n, FN) for f in ('body', 'orelse', 'finalbody') if isinstance(getattr(n, f, None), list)] + \
                 [h.body for n in own_nodes(fn) if isinstance(n, ast.Try) for h in n.handlers]:
        for st in blk:
          if isinstance(st, FN):
            yield prefix + '.' + st.name, st, blk, fn
            for x in nested_of(st, prefix + '.' + st.name):
              yield x
    for nq, N, nblk, Q in nested_of(G_, gq_):
      if (rel + '::' + nq) not in bfuncs and _plain(N) and not N.decorator_list:
        cands_m.append((nq, N, nblk, None, Q))
  for mq, M, mbody, mcls, Q in cands_m:
    mname = mq.split('.')[-1]
    if Q is None and (mq in known or not mname.startswith('_') or (mname.startswith('__') and mname.endswith('__')) or not _plain(M)):
      continue
    if M.args.vararg or M.args.kwarg or M.args.kwonlyargs:
      continue
    is_method = mcls is not None
    static = _is_static(M)
    # references
    refs = []
    bad = False
    for p in (ast.walk(tree) if Q is None else ast.walk(Q)):
      for fld, val in ast.iter_fields(p):
        vals = val if isinstance(val, list) else [val]
        for i, v in enumerate(vals):
          hit = False
          if is_method and isinstance(v, ast.Attribute) and v.attr == mname:
            if isinstance(v.value, ast.Name) and v.value.id in ('self', 'cls', mcls.name) and (static or v.value.id == 'self'):
              hit = True
            else:
              bad = True
          elif not is_method and isinstance(v, ast.Name) and v.id == mname and isinstance(v.ctx, ast.Load):
            hit = True
          if hit:
            refs.append((p, fld, i if isinstance(val, list) else None, v))
    if bad or not refs:
      continue
    holders = set(id(encl.get(id(v), (None, None))[0]) for _, _, _, v in refs)
    if len(holders) != 1:
      continue
    G = encl.get(id(refs[0][3]), (None, None))[0]
    if G is None or G is M:
      continue
    gq = qual_of.get(id(G))
    if gq is None or gq not in known:
      continue
    if is_method and encl.get(id(refs[0][3]))[1] is not mcls:
      continue
    have = _nested_quals(G, gq)
    # nested functions that moved, with their surroundings, into some other new helper are not missing
    elsewhere = set(n_.name for q_, (f_, _, _) in cur.items() if q_ not in known and f_ is not M for n_ in ast.walk(f_) if isinstance(n_, FN) and n_ is not f_)
    cands = []
    for key in b.get('sources', {}):
      r, q = key.split('::', 1)
      if r == rel and q.startswith(gq + '.') and q not in have and q.rsplit('.', 1)[1] not in elsewhere:
        bn = base_fn(b, rel, q)
        if bn is not None:
          cands.append((similarity(bn, M), q, bn))
    cands.sort(key=lambda x: -x[0])
    if not cands or cands[0][0] < 0.5:
      continue
    sim, fq, bnode = cands[0]
    # a factory that *returns* the closure is not the closure (helper inlining undoes it)
    if any(isinstance(n_, FN) and similarity(bnode, n_) >= sim for n_ in ast.walk(M) if n_ is not M):
      continue
    # the reference closure is still there under another name (a nested function of the caller about as similar): the new helper is just a helper
    if any(isinstance(n_, FN) and n_ is not G and n_ is not M and not any(n_ is x_ for x_ in ast.walk(M)) and similarity(bnode, n_) >= min(sim, 0.62) - 0.1 for n_ in ast.walk(G)):
      continue
    pq = fq.rsplit('.', 1)[0]
    P = G if pq == gq else have.get(pq)
    if P is None:
      continue
    if not all(any(x is v for x in ast.walk(P)) for _, _, _, v in refs):
      continue
    if Q is not None and not (P is Q or any(x is P for x in ast.walk(Q))):
      continue
    if Q is not None and any(x is P for x in ast.walk(M)):
      continue
    # scope chain of P inside G
    chain = [G]
    node = G
    for part in pq[len(gq):].split('.'):
      if not part:
        continue
      node = [n for n in own_nodes(node) if isinstance(n, FN) and n.name == part][0]
      chain.append(node)
    visible = set()
    for fn in chain:
      visible |= _scope_names(fn)
    assigned = {}
    for n_ in ast.walk(G):
      if isinstance(n_, ast.Name) and isinstance(n_.ctx, ast.Store):
        assigned[n_.id] = assigned.get(n_.id, 0) + 1
    loopvars = set(x.id for lp in ast.walk(G) if isinstance(lp, (ast.For, ast.comprehension)) for x in ast.walk(lp.target) if isinstance(x, ast.Name))
    allparams = set()
    for fn in chain:
      allparams |= set(params_of(fn))

    def stable(nm):
      if nm not in visible or nm in loopvars:
        return False
      return assigned.get(nm, 0) == 1 and nm not in allparams or (nm in allparams and assigned.get(nm, 0) == 0)
    hparams = [a.arg for a in M.args.posonlyargs + M.args.args]
    if is_method and not static:
      hparams = hparams[1:]
    ndef = len(M.args.defaults)
    defaults = dict(zip(hparams[len(hparams) - ndef:], M.args.defaults)) if ndef else {}
    bindings = []   # per ref: (kind, call node or None, {param: expr})
    ok = True
    for p, fld, i, v in refs:
      if isinstance(p, ast.Call) and fld == 'func':
        kind, call, pos, kws = 'call', p, list(p.args), list(p.keywords)
      elif isinstance(p, ast.Call) and fld == 'args' and i == 0 and ast.unparse(p.func) in ('functools.partial', 'partial'):
        kind, call, pos, kws = 'partial', p, list(p.args[1:]), list(p.keywords)
      else:
        kind, call, pos, kws = 'bare', None, [], []
      m = {}
      for k, a in enumerate(pos):
        if isinstance(a, ast.Starred) or k >= len(hparams):
          break
        m[hparams[k]] = a
      for kw in kws:
        if kw.arg is not None and kw.arg in hparams and kw.arg not in m:
          m[kw.arg] = kw.value
      bindings.append((kind, call, m, (p, fld, i, v)))
    captured = None
    pre_assign = {}

    def literal(a):
      return isinstance(a, (ast.List, ast.Dict, ast.Set, ast.Tuple, ast.Constant)) and all(isinstance(x, (ast.List, ast.Dict, ast.Set, ast.Tuple, ast.Constant, ast.Load)) for x in ast.walk(a))
    for kind, call, m, _ in bindings:
      c = dict((pn, a.id) for pn, a in m.items() if isinstance(a, ast.Name) and stable(a.id))
      if len(bindings) == 1 and kind == 'partial':
        # a literal bound once when the partial is created is a captured variable initialised just before the definition
        for pn, a in m.items():
          if pn not in c and literal(a) and pn not in visible:
            c[pn] = pn
            pre_assign[pn] = a
      captured = c if captured is None else dict((k, v) for k, v in captured.items() if c.get(k) == v)
    captured = captured or {}
    pre_assign = dict((k, v) for k, v in pre_assign.items() if k in captured)
    want = len(params_of(bnode))
    # keep only as many captured parameters as needed to reach the reference arity (leading ones first)
    if len(hparams) - len(captured) < want:
      extra = want - (len(hparams) - len(captured))
      for pn in [x for x in reversed(hparams) if x in captured][:extra]:
        captured.pop(pn)
        pre_assign.pop(pn, None)
    rest = [pn for pn in hparams if pn not in captured]
    # a captured name must not be rebound inside M's body under another meaning
    body = [copy.deepcopy(s_) for s_ in _strip_doc(M.body)] or [ast.Pass()]
    mlocals = _scope_names(M) - set(hparams)
    if any(v in mlocals for v in captured.values()):
      continue
    mapping = dict((pn, ast.Name(id=v, ctx=ast.Load())) for pn, v in captured.items() if pn != v)
    stores = set(n_.id for s_ in body for n_ in ast.walk(s_) if isinstance(n_, ast.Name) and isinstance(n_.ctx, ast.Store))
    if any(pn in stores for pn in captured if pn not in pre_assign):
      continue
    if mapping:
      body = [_Subst(mapping).visit(s_) for s_ in body]
    fname = fq.rsplit('.', 1)[1]
    replace_assign = None
    if fname in visible and not (Q is not None and fname == mname):
      # the name is taken in the scope: fine only when it is bound exactly once, to this very reference
      # (`cancel = functools.partial(_Helper, args)`): the assignment then becomes the definition
      binds = [n_ for n_ in ast.walk(P) if isinstance(n_, ast.Assign) and any(isinstance(t, ast.Name) and t.id == fname for t in n_.targets)]
      if (len(binds) == 1 and len(binds[0].targets) == 1 and len(bindings) == 1 and bindings[0][0] == 'partial' and binds[0].value is bindings[0][1]
          and assigned.get(fname, 0) == 1 and set(bindings[0][2]) <= set(captured)):
        replace_assign = binds[0]
      elif any(isinstance(n_, ast.Name) and n_.id == fname and not any(n_ is r_[3] for r_ in refs) for n_ in ast.walk(P)):
        continue
    nested = ast.FunctionDef(name=fname, args=ast.arguments(posonlyargs=[], args=[ast.arg(arg=pn) for pn in rest], vararg=None, kwonlyargs=[], kw_defaults=[],
                             kwarg=None, defaults=[copy.deepcopy(defaults[pn]) for pn in rest if pn in defaults]),
                             body=body, decorator_list=[], lineno=getattr(refs[0][3], 'lineno', 1), col_offset=0)
    if any(pn in defaults for pn in rest) and not all(pn in defaults for pn in rest[[pn in defaults for pn in rest].index(True):]):
      continue
    # placement: in front of the statement of P's own block structure that holds the first reference
    placed = False
    blocks = []
    for n_ in [P] + [x for x in own_nodes(P)]:
      if isinstance(n_, FN) and n_ is not P:
        continue
      for fld in ('body', 'orelse', 'finalbody'):
        v_ = getattr(n_, fld, None)
        if isinstance(v_, list) and v_ and isinstance(v_[0], ast.stmt):
          blocks.append(v_)
      if isinstance(n_, ast.Try):
        for h in n_.handlers:
          blocks.append(h.body)
    first = min((r[3] for r in refs), key=lambda x: (getattr(x, 'lineno', 0), getattr(x, 'col_offset', 0)))
    blocks.sort(key=lambda b_: sum(len(list(ast.walk(s_))) for s_ in b_))
    if replace_assign is not None:
      for blk in blocks:
        for i, st in enumerate(blk):
          if st is replace_assign:
            blk[i] = nested
            placed = True
      if placed:
        mbody.remove(M)
        ast.fix_missing_locations(tree)
        stats['closures_restored'] = stats.get('closures_restored', 0) + 1
        return True
      continue
    for blk in blocks:
      for i, st in enumerate(blk):
        if any(x is first for x in ast.walk(st)):
          if isinstance(st, FN):
            continue
          # every reference must be inside this block from here on (a definition placed in one branch is not visible in the other)
          inside = set(id(x) for s2 in blk[i:] for x in ast.walk(s2))
          if not all(id(r[3]) in inside for r in refs):
            break
          blk.insert(i, nested)
          for pn, a in pre_assign.items():
            blk.insert(i, ast.copy_location(ast.Assign(targets=[ast.Name(id=pn, ctx=ast.Store())], value=copy.deepcopy(a)), st))
          placed = True
          break
      if placed:
        break
    if not placed:
      continue
    for kind, call, m, (p, fld, i, v) in bindings:
      ref = ast.copy_location(ast.Name(id=fname, ctx=ast.Load()), v)
      if kind == 'bare':
        _set(p, fld, i, ref)
        continue
      pos = list(call.args) if kind == 'call' else list(call.args[1:])
      newpos = []
      for k, a in enumerate(pos):
        pn = hparams[k] if k < len(hparams) and not any(isinstance(x, ast.Starred) for x in pos[:k + 1]) else None
        if pn is not None and pn in captured:
          continue
        newpos.append(a)
      newkw = [kw for kw in call.keywords if not (kw.arg in captured)]
      if kind == 'call':
        call.func = ref
        call.args = newpos
        call.keywords = newkw
      elif newpos or newkw:
        call.args = [ref] + newpos
        call.keywords = newkw
      else:
        _replace_node(tree, call, ref)
    mbody.remove(M)
    if not mbody:
      mbody.append(ast.Pass())
    ast.fix_missing_locations(tree)
    stats['closures_restored'] = stats.get('closures_restored', 0) + 1
    return True
  return False


# ---------------------------------------------------------------- R3
class _Abs(ast.NodeTransformer):
  def __init__(self, names):
    self.names = names

  def visit_Name(self, node):
    if node.id in self.names:
      return ast.Name(id='_L_', ctx=ast.Load())
    return ast.Name(id=node.id, ctx=ast.Load())

  def visit_arg(self, node):
    return ast.arg(arg='_L_')


def _stmt_key(st, names):
  """Alignment key of a statement: its text with locals abstracted; a compound statement by its header only."""
  st2 = copy.copy(st)
  if isinstance(st, (ast.If, ast.While)):
    return type(st).__name__ + ':' + ast.unparse(_Abs(names).visit(copy.deepcopy(st.test)))
  if isinstance(st, (ast.For, ast.AsyncFor)):
    it = copy.deepcopy(st.iter)
    if (isinstance(it, ast.Call) and isinstance(it.func, ast.Name) and it.func.id == 'range' and len(it.args) == 2 and not it.keywords
        and isinstance(it.args[0], ast.Constant) and it.args[0].value == 0):
      it.args = it.args[1:]        # range(0, n) is range(n)
    return 'For:' + ast.unparse(_Abs(names).visit(it))
  if isinstance(st, (ast.With, ast.AsyncWith)):
    return 'With:' + ','.join(ast.unparse(_Abs(names).visit(copy.deepcopy(i.context_expr))) for i in st.items)
  if isinstance(st, ast.Try):
    return 'Try:' + ','.join(ast.unparse(h.type) if h.type is not None else '' for h in st.handlers)
  if isinstance(st, FN):
    return 'def ' + st.name
  try:
    return ast.unparse(_Abs(names).visit(copy.deepcopy(st)))
  except Exception:
    return '?'


def _align(bblk, cblk, bnames, cnames):
  kb = [_stmt_key(s_, bnames) for s_ in bblk]
  kc = [_stmt_key(s_, cnames) for s_ in cblk]
  sm = difflib.SequenceMatcher(None, kb, kc, autojunk=False)
  pairs = {}
  for blk in sm.get_matching_blocks():
    for k in range(blk.size):
      pairs[blk.a + k] = blk.b + k
  # nested definitions are matched by name wherever they stand
  for i, k in enumerate(kb):
    if k.startswith('def ') and i not in pairs and kb.count(k) == 1 and kc.count(k) == 1 and kc.index(k) not in pairs.values():
      pairs[i] = kc.index(k)
  return pairs


def _sub_blocks(st):
  out = []
  for fld in ('body', 'orelse', 'finalbody'):
    v = getattr(st, fld, None)
    if isinstance(v, list) and v and isinstance(v[0], ast.stmt):
      out.append((fld, None, v))
  for k, h in enumerate(getattr(st, 'handlers', []) or []):
    out.append(('handlers', k, h.body))
  return out


def _find_path(fn, target):
  """Path [(block getter...)] from fn.body down to the statement that holds `target` in its own expressions (not in a nested
  block).  Returns a list of (index, field, handler index) steps plus the final index."""
  def search(blk):
    for i, st in enumerate(blk):
      if isinstance(st, ast.ClassDef):
        continue
      subs = _sub_blocks(st)
      inner_nodes = set(id(x) for _, _, sb in subs for s2 in sb for x in ast.walk(s2))
      if any(x is target for x in ast.walk(st)):
        if id(target) not in inner_nodes:
          return [i]
        for fld, k, sb in subs:
          if any(x is target for s2 in sb for x in ast.walk(s2)):
            r = search(sb)
            if r is not None:
              return [(i, fld, k)] + r
    return None
  return search(fn.body)


def _stores(stmts):
  out = set()
  for st in stmts:
    stack = [st]
    while stack:
      n = stack.pop()
      if isinstance(n, FN + (ast.Lambda, ast.ClassDef)):
        if isinstance(n, FN):
          out.add(n.name)
        continue
      if isinstance(n, ast.Name) and isinstance(n.ctx, ast.Store):
        out.add(n.id)
      if isinstance(n, ast.ExceptHandler) and n.name:
        out.add(n.name)
      if isinstance(n, (ast.ListComp, ast.SetComp, ast.GeneratorExp, ast.DictComp)):
        continue
      stack.extend(ast.iter_child_nodes(n))
  return out


def _loads_of(stmts):
  out = set()
  for st in stmts:
    for n in ast.walk(st):
      if isinstance(n, ast.Name) and isinstance(n.ctx, ast.Load):
        out.add(n.id)
  return out


def _parallel_names(bst, cst, out):
  """Name correspondence of two statements of the same abstract shape."""
  bn = [n for n in ast.walk(bst) if isinstance(n, ast.Name)]
  cn = [n for n in ast.walk(cst) if isinstance(n, ast.Name)]
  if len(bn) != len(cn):
    return
  for x, y in zip(bn, cn):
    out.setdefault(x.id, y.id)


def _baseline_callers(b, rel, fq):
  """[(caller qualname, caller node, [call nodes])] in the reference source of rel for the function fq."""
  fname = fq.split('.')[-1]
  cls = fq.split('.')[-2] if '.' in fq else None
  out = []
  for key in b.get('sources', {}):
    r, q = key.split('::', 1)
    if r != rel or q == fq:
      continue
    # only top/class level functions (nested ones are part of their parents' sources)
    if q not in set(b.get('inventory', {}).get(rel, [])):
      continue
    node = base_fn(b, rel, q)
    if node is None:
      continue
    calls = []
    for n in ast.walk(node):
      if isinstance(n, ast.Call):
        f = n.func
        if cls and isinstance(f, ast.Attribute) and f.attr == fname and isinstance(f.value, ast.Name) and f.value.id in ('self', 'cls', cls):
          calls.append(n)
        elif not cls and isinstance(f, ast.Name) and f.id == fname:
          calls.append(n)
    if calls:
      out.append((q, node, calls))
  return out


def _other_refs(b, rel, fq):
  """Is fq referenced in the reference tree other than by the direct calls found by _baseline_callers (e.g. passed as a value)?"""
  fname = fq.split('.')[-1]
  cnt = 0
  for key, src in b.get('sources', {}).items():
    r, q = key.split('::', 1)
    if q not in set(b.get('inventory', {}).get(r, [])) or (r == rel and q == fq):
      continue
    cnt += src.count(fname)
  return cnt


def _descend(gb, gc, path, bnames, cnames):
  """Follow `path` (from _find_path on the reference caller) in the current caller by aligning blocks level by level.
  Returns (reference block, current block, alignment pairs, index of the call statement in the reference block)."""
  bblk, cblk = gb.body, gc.body
  bblk = _strip_doc(bblk)
  cblk_full = gc.body
  off = len(gb.body) - len(bblk)
  steps = list(path)
  first = True
  while True:
    step = steps.pop(0)
    pairs = _align(bblk, cblk, bnames, cnames)
    if not steps:
      idx = step - (off if first else 0)
      return bblk, cblk, pairs, idx
    i, fld, k = step
    i -= (off if first else 0)
    first = False
    if i not in pairs:
      return None
    bst, cst = bblk[i], cblk[pairs[i]]
    if type(bst) is not type(cst):
      return None
    if fld == 'handlers':
      if k >= len(cst.handlers):
        return None
      bblk, cblk = bst.handlers[k].body, cst.handlers[k].body
    else:
      bblk, cblk = getattr(bst, fld), getattr(cst, fld)
    if not bblk or not cblk:
      return None


def _tail_returns(body, x):
  """`x = e` as the last statement, or `x = e; break` as the tail of a top-level loop that is followed only by
  `return x`: turned into `return e` (the outlined function leaves through its result)."""
  if len(body) >= 2 and isinstance(body[-1], ast.Return) and isinstance(body[-1].value, ast.Name) and body[-1].value.id == x:
    prev = body[-2]
    if isinstance(prev, ast.Assign) and len(prev.targets) == 1 and isinstance(prev.targets[0], ast.Name) and prev.targets[0].id == x:
      if not any(isinstance(n, ast.Name) and n.id == x for n in ast.walk(prev.value)):
        body[-2:] = [ast.copy_location(ast.Return(value=prev.value), prev)]
        return
    if isinstance(prev, (ast.While, ast.For)) and not prev.orelse:
      def rewrite(stmts, depth):
        out = []
        k = 0
        while k < len(stmts):
          st = stmts[k]
          if (depth == 0 and isinstance(st, ast.Assign) and len(st.targets) == 1 and isinstance(st.targets[0], ast.Name) and st.targets[0].id == x
              and k + 1 < len(stmts) and isinstance(stmts[k + 1], ast.Break)):
            out.append(ast.copy_location(ast.Return(value=st.value), st))
            k += 2
            continue
          if isinstance(st, (ast.If, ast.Try, ast.With)):
            for fld, hk, sb in _sub_blocks(st):
              nb = rewrite(sb, depth)
              if fld == 'handlers':
                st.handlers[hk].body = nb
              else:
                setattr(st, fld, nb)
          out.append(st)
          k += 1
        return out
      prev.body = rewrite(prev.body, 0)


def outline_missing(tree, rel, stats):
  b = load_baseline()
  inv = b.get('inventory', {}).get(rel, [])
  if not inv or not b.get('sources'):
    return
  from .normalize import rename_function
  for _round in range(3):
    cur = collect(tree)
    classes = collect_classes(tree)
    progress = False
    for fq in inv:
      if fq in cur or fq.endswith('.setter'):
        continue
      fname = fq.split('.')[-1]
      if not fname.startswith('_') or (fname.startswith('__') and fname.endswith('__')):
        continue
      fb = base_fn(b, rel, fq)
      if fb is None or not all(ast.unparse(d) == 'staticmethod' for d in fb.decorator_list):
        continue
      cont = '.'.join(fq.split('.')[:-1])
      if cont and cont not in classes:
        continue
      callers = _baseline_callers(b, rel, fq)
      if not callers:
        continue
      made = None
      ok_all = True
      edits = []
      for gq, gb, calls in callers:
        if gq not in cur:
          ok_all = False
          break
        gc = cur[gq][0]
        for call in calls:
          r = _outline_site(fb, fq, gb, gc, call)
          if r is None:
            stats.setdefault('outline_fail', []).append((fq, gq, FAILS[-1] if FAILS else '?'))
            ok_all = False
            break
          edits.append(r)
        if not ok_all:
          break
      if not ok_all or not edits:
        continue
      # all sites resolved: apply
      fnew = edits[0][0]
      if similarity(fb, fnew) < 0.5:
        continue
      for fdef, apply_ in edits:
        apply_()
      if cont:
        classes[cont][0].body.append(fnew)
      else:
        tree.body.append(fnew)
      ast.fix_missing_locations(tree)
      try:
        rename_function(fnew, rel, fq, b['functions'], stats)
      except Exception:
        pass
      stats['outlined'] = stats.get('outlined', 0) + 1
      progress = True
    if not progress:
      break


FAILS = []


def _fail(why):
  FAILS.append(why)
  return None


def _outline_site(fb, fq, gb, gc, call):
  """Plan the outlining of one reference call site.  Returns (new function def, apply thunk) or None."""
  bnames = _scope_names(gb)
  cnames = _scope_names(gc)
  for n_ in ast.walk(gb):
    if isinstance(n_, FN) and n_ is not gb:
      bnames |= _scope_names(n_)
  for n_ in ast.walk(gc):
    if isinstance(n_, FN) and n_ is not gc:
      cnames |= _scope_names(n_)
  path = _find_path(gb, call)
  if path is None:
    return _fail('site1')
  d = _descend(gb, gc, path, bnames, cnames)
  if d is None:
    return _fail('site2')
  bblk, cblk, pairs, i = d
  if i in pairs or i < 0 or i >= len(bblk):
    return _fail('site3')
  bst = bblk[i]
  prev = [k for k in pairs if k < i]
  nxt = [k for k in pairs if k > i]
  lo = max(prev) if prev else -1
  hi = min(nxt) if nxt else len(bblk)
  if hi - lo != 2:
    return _fail('site4')      # other unmatched reference statements next to the call: not a clean merge
  j0 = pairs[lo] + 1 if prev else 0
  j1 = pairs[hi] if nxt else len(cblk)
  region = cblk[j0:j1]
  while region and isinstance(region[0], ast.Expr) and isinstance(region[0].value, ast.Constant) and isinstance(region[0].value.value, str):
    region = region[1:]
  if not region:
    return _fail('site5')
  static = _is_static(fb)
  fparams = params_of(fb)
  own = fparams if (static or '.' not in fq) else fparams[1:]
  # parameter substitution: reference argument expressions -> parameter names
  bind = {}
  if any(isinstance(a, ast.Starred) for a in call.args) or len(call.args) > len(own):
    return _fail('site6')
  for pn, a in zip(own, call.args):
    bind[pn] = a
  for kw in call.keywords:
    if kw.arg is None or kw.arg not in own:
      return _fail('site7')
    bind[kw.arg] = kw.value
  # statement-level forms
  kind = None
  targets = None
  if isinstance(bst, ast.Expr) and bst.value is call:
    kind = 'expr'
  elif isinstance(bst, ast.Assign) and bst.value is call and len(bst.targets) == 1:
    kind = 'assign'
    targets = [nm for nm, _ in _targets(bst.targets[0])]
    if not targets or not isinstance(bst.targets[0], (ast.Name, ast.Tuple, ast.List)):
      return _fail('site8')
  elif isinstance(bst, ast.Return) and bst.value is call:
    kind = 'return'
  if kind is None:
    return _outline_expr(fb, fq, bst, region, call, bind, own, cblk, j0, bnames, cnames)
  after = cblk[j1:]
  # everything of gc that executes after the region (approximation: the rest of the function text after the region start)
  rest_loads = set()
  seen = [False]

  def later(blk):
    for st in blk:
      if st is region[-1]:
        seen[0] = True
        continue
      if any(st is r_ for r_ in region):
        continue
      if seen[0]:
        rest_loads.update(_loads_of([st]))
      else:
        for _, _, sb in _sub_blocks(st):
          later(sb)
        if seen[0] and isinstance(st, (ast.While, ast.For)):
          # a loop around the region: the next iteration reads (everything of the loop but the region itself)
          inside = set(id(x) for r_ in region for x in ast.walk(r_))
          rest_loads.update(n.id for n in ast.walk(st) if isinstance(n, ast.Name) and isinstance(n.ctx, ast.Load) and id(n) not in inside)
  later(gc.body)
  stored = _stores(region)
  # redefined before any later read (straight-line scan of the statements that follow in the same block)
  redefined = set()
  seen_load = set()
  for st in after:
    if isinstance(st, ast.Assign) and all(isinstance(t, ast.Name) for t in st.targets):
      seen_load |= _loads_of([st.value])
      for t in st.targets:
        if t.id not in seen_load:
          redefined.add(t.id)
      continue
    seen_load |= _loads_of([st])
  live = sorted(x for x in stored if x in rest_loads and x not in redefined)
  body = [copy.deepcopy(s_) for s_ in region]
  if kind == 'expr':
    if live:
      return _fail('site9')
    new_stmt = copy.deepcopy(bst)
  elif kind == 'return':
    if j1 != len(cblk):
      return _fail('site10')
    new_stmt = copy.deepcopy(bst)
  else:
    if len(live) != len(targets):
      return _fail('site11')
    if len(targets) == 1:
      order = live
    else:
      m = {}
      k2 = hi
      while k2 in pairs and k2 < len(bblk) and len(m) < len(targets):
        _parallel_names(bblk[k2], cblk[pairs[k2]], m)
        k2 += 1
      order = [m.get(t) for t in targets]
      if sorted(x for x in order if x) != live:
        return _fail('site12')
    if len(order) == 1:
      rv = ast.Name(id=order[0], ctx=ast.Load())
      tgt = ast.Name(id=order[0], ctx=ast.Store())
    else:
      rv = ast.Tuple(elts=[ast.Name(id=x, ctx=ast.Load()) for x in order], ctx=ast.Load())
      tgt = ast.Tuple(elts=[ast.Name(id=x, ctx=ast.Store()) for x in order], ctx=ast.Store())
    body.append(ast.Return(value=rv))
    if len(order) == 1:
      _tail_returns(body, order[0])
    new_stmt = copy.deepcopy(bst)
    new_stmt.targets = [tgt]
  # arguments -> parameters
  body = _args_to_params(body, bind)
  if body is None:
    return _fail('site13')
  # free locals of the caller that the region reads but the function would not receive
  free = (_loads_of(body) & cnames) - _stores(body) - set(fparams) - set(['self', 'cls'])
  inner_params = set(a.arg for s_ in body for n in ast.walk(s_) if isinstance(n, (ast.Lambda,) + FN) for a in n.args.args) | \
                 set(x.id for s_ in body for n in ast.walk(s_) if isinstance(n, ast.comprehension) for x in ast.walk(n.target) if isinstance(x, ast.Name))
  if free - inner_params:
    return _fail('site14')
  fnew = ast.FunctionDef(name=fb.name, args=copy.deepcopy(fb.args), body=body, decorator_list=copy.deepcopy(fb.decorator_list),
                         lineno=getattr(region[0], 'lineno', 1), col_offset=0)
  if hasattr(fb, 'type_params'):
    fnew.type_params = []
  ast.copy_location(new_stmt, region[0])

  def apply_():
    k0 = [k for k, s_ in enumerate(cblk) if s_ is region[0]][0]
    cblk[k0:k0 + len(region)] = [new_stmt]
  return fnew, apply_


def _args_to_params(body, bind):
  """Replace, in the outlined body, the caller-side argument expressions by the parameter names."""
  reps = []
  for pn, a in bind.items():
    if isinstance(a, ast.Name) and a.id == pn:
      continue
    if isinstance(a, ast.Constant):
      continue
    if not (isinstance(a, (ast.Name, ast.Attribute))):
      continue
    reps.append((ast.dump(a), pn))
  if not reps:
    return body

  class T(ast.NodeTransformer):
    def generic_visit(self, node):
      if isinstance(node, ast.expr) and isinstance(getattr(node, 'ctx', ast.Load()), ast.Load):
        d = ast.dump(node)
        for dd, pn in reps:
          if d == dd:
            return ast.copy_location(ast.Name(id=pn, ctx=ast.Load()), node)
      return super().generic_visit(node)
  return [T().visit(s_) for s_ in body]


def _expr_diff(bn, cn, out, bnames, cnames):
  """Minimal differing sub-expression pairs of two nodes."""
  if type(bn) is not type(cn):
    out.append((bn, cn))
    return
  if isinstance(bn, ast.Name):
    if bn.id != cn.id and not (bn.id in bnames and cn.id in cnames):
      out.append((bn, cn))
    return
  for (f1, v1), (f2, v2) in zip(ast.iter_fields(bn), ast.iter_fields(cn)):
    if isinstance(v1, list) and isinstance(v2, list):
      if len(v1) != len(v2):
        out.append((bn, cn))
        return
      for x, y in zip(v1, v2):
        if isinstance(x, ast.AST) and isinstance(y, ast.AST):
          _expr_diff(x, y, out, bnames, cnames)
        elif x != y:
          out.append((bn, cn))
          return
    elif isinstance(v1, ast.AST) and isinstance(v2, ast.AST):
      _expr_diff(v1, v2, out, bnames, cnames)
    elif isinstance(v1, ast.AST) or isinstance(v2, ast.AST):
      out.append((bn, cn))
      return
    elif v1 != v2 and f1 not in ('lineno', 'col_offset', 'end_lineno', 'end_col_offset', 'type_comment', 'kind'):
      out.append((bn, cn))
      return


def _twin(bn, cn, target):
  """The node of cn at the structural position that `target` has in bn (None when the shapes diverge above it)."""
  if bn is target:
    return cn
  if type(bn) is not type(cn):
    return None
  for (f1, v1), (f2, v2) in zip(ast.iter_fields(bn), ast.iter_fields(cn)):
    if isinstance(v1, ast.AST) and isinstance(v2, ast.AST):
      if any(x is target for x in ast.walk(v1)):
        return _twin(v1, v2, target)
    elif isinstance(v1, list) and isinstance(v2, list):
      for k, x in enumerate(v1):
        if isinstance(x, ast.AST) and any(y is target for y in ast.walk(x)):
          if len(v1) != len(v2) or not isinstance(v2[k], ast.AST):
            return None
          return _twin(x, v2[k], target)
  return None


def _outline_expr(fb, fq, bst, region, call, bind, own, cblk, j0, bnames, cnames):
  """The reference call sits inside an expression of bst; the current statement has the helper's (single return)
  expression at that place."""
  if len(region) != 1 or type(region[0]) is not type(bst):
    return _fail('expr1')
  cst = region[0]
  diffs = []
  _expr_diff(bst, cst, diffs, bnames, cnames)
  if len(diffs) != 1:
    # several differences, all inside the reference call: the node that stands where the call stood is the replacement
    inside = set(id(x) for x in ast.walk(call))
    twin = _twin(bst, cst, call)
    if diffs and twin is not None and all(id(b_) in inside for b_, _c in diffs):
      diffs = [(call, twin)]
    else:
      return _fail('expr2')
  bsub, csub = diffs[0]
  value = None
  if bsub is call:
    value = copy.deepcopy(csub)
    holder = ('node', csub)
  elif isinstance(bsub, ast.Call) and isinstance(csub, ast.Call) and any(isinstance(a, ast.Starred) and a.value is call for a in bsub.args):
    # f(x, *self._Helper(t))  vs  f(x, e1, e2, e3): the helper returns the list of the extra arguments
    k = [k for k, a in enumerate(bsub.args) if isinstance(a, ast.Starred) and a.value is call][0]
    tail = len(bsub.args) - k - 1
    if ast.dump(bsub.func) != ast.dump(csub.func) or len(csub.args) < len(bsub.args):
      return _fail('expr3')
    extra = csub.args[k:len(csub.args) - tail]
    pre_ok = all(ast.unparse(_Abs(bnames).visit(copy.deepcopy(x))) == ast.unparse(_Abs(cnames).visit(copy.deepcopy(y))) for x, y in zip(bsub.args[:k], csub.args[:k]))
    if not pre_ok or not extra:
      return _fail('expr4')
    value = ast.List(elts=[copy.deepcopy(x) for x in extra], ctx=ast.Load())
    holder = ('star', csub, k, len(extra))
  else:
    return _fail('expr5')
  body = _args_to_params([ast.Return(value=value)], bind)
  free = (_loads_of(body) & cnames) - set(params_of(fb)) - set(['self', 'cls'])
  inner_params = set(a.arg for s_ in body for n in ast.walk(s_) if isinstance(n, (ast.Lambda,)) for a in n.args.args) | \
                 set(x.id for s_ in body for n in ast.walk(s_) if isinstance(n, ast.comprehension) for x in ast.walk(n.target) if isinstance(x, ast.Name))
  if free - inner_params:
    return _fail('expr6')
  fnew = ast.FunctionDef(name=fb.name, args=copy.deepcopy(fb.args), body=body, decorator_list=copy.deepcopy(fb.decorator_list),
                         lineno=getattr(cst, 'lineno', 1), col_offset=0)
  if hasattr(fb, 'type_params'):
    fnew.type_params = []
  newcall = ast.copy_location(copy.deepcopy(call), csub)

  def apply_():
    if holder[0] == 'node':
      _replace_node(cst, holder[1], newcall)
    else:
      _, cs, k, n = holder
      cs.args[k:k + n] = [ast.Starred(value=newcall, ctx=ast.Load())]
    ast.fix_missing_locations(cst)
  return fnew, apply_


# ---------------------------------------------------------------- R4
def fuse_generators(tree, rel, stats):
  """A new private generator of the shape  `<init>; while True: yield E; <update>`  that is consumed by exactly one
  `for T in self._Gen():` loop is fused back into that loop:  `<init>; while True: T = E; <body>; <update>`
  (a `continue` of the body runs <update> first; `break`/`return` abandon the generator as before)."""
  b = load_baseline()
  known = set(b.get('inventory', {}).get(rel, []))
  if not known:
    return
  cur = collect(tree)
  for gq, (G, gbody, gcls) in list(cur.items()):
    if gq in known or not _plain(G) or not G.name.startswith('_'):
      continue
    body = _strip_doc(G.body)
    if not body or not isinstance(body[-1], ast.While) or not (isinstance(body[-1].test, ast.Constant) and body[-1].test.value is True) or body[-1].orelse:
      continue
    init, loop = body[:-1], body[-1]
    ys = [n for n in ast.walk(G) if isinstance(n, (ast.Yield, ast.YieldFrom))]
    if len(ys) != 1 or not loop.body or not (isinstance(loop.body[0], ast.Expr) and loop.body[0].value is ys[0]) or not isinstance(ys[0], ast.Yield) or ys[0].value is None:
      continue
    update = loop.body[1:]
    if any(isinstance(n, (ast.Return, ast.Break, ast.Continue)) for st in init + update for n in ast.walk(st)):
      continue
    params = params_of(G)
    if (gcls is not None and not _is_static(G) and params != ['self']) or (gcls is None and params) or (gcls is not None and _is_static(G) and params):
      continue
    # the single consumer
    uses = []
    for q, (F, _, fcls) in cur.items():
      if F is G:
        continue
      for n in ast.walk(F):
        if isinstance(n, ast.Attribute) and n.attr == G.name or isinstance(n, ast.Name) and n.id == G.name:
          uses.append((F, n))
    if len(uses) != 1:
      continue
    F, ref = uses[0]
    loops = [n for n in ast.walk(F) if isinstance(n, ast.For) and isinstance(n.iter, ast.Call) and n.iter.func is ref and not n.iter.args and not n.iter.keywords and not n.orelse]
    drop_assign = None
    if not loops:
      # gen = self._Gen()  ...  for T in gen:     (the generator object is used for nothing else)
      asg = [n for n in ast.walk(F) if isinstance(n, ast.Assign) and len(n.targets) == 1 and isinstance(n.targets[0], ast.Name) and isinstance(n.value, ast.Call)
             and n.value.func is ref and not n.value.args and not n.value.keywords]
      if len(asg) == 1:
        gname = asg[0].targets[0].id
        refs_g = [n for n in ast.walk(F) if isinstance(n, ast.Name) and n.id == gname]
        loops = [n for n in ast.walk(F) if isinstance(n, ast.For) and isinstance(n.iter, ast.Name) and n.iter.id == gname and not n.orelse]
        if len(refs_g) == 2 and len(loops) == 1:
          drop_assign = asg[0]
        else:
          loops = []
    if len(loops) != 1:
      continue
    if gcls is not None and not (isinstance(ref, ast.Attribute) and isinstance(ref.value, ast.Name) and ref.value.id in ('self', gcls.name)):
      continue
    L = loops[0]
    # local names of the generator must not collide with the consumer's
    fnames = _scope_names(F)
    gl = _scope_names(G) - set(params)
    E = ys[0].value
    ren = {}
    if isinstance(E, ast.Name) and E.id in gl and isinstance(L.target, ast.Name):
      ren[E.id] = L.target.id
    for nm in gl:
      if nm not in ren and nm in fnames:
        ren[nm] = nm + '__g'
    if any(v in fnames and v != (L.target.id if isinstance(L.target, ast.Name) else None) for v in ren.values()):
      continue
    r = _Rename(ren)
    init2 = [r.visit(copy.deepcopy(st)) for st in init]
    update2 = [r.visit(copy.deepcopy(st)) for st in update]
    E2 = r.visit(copy.deepcopy(E))
    head = [] if (isinstance(E2, ast.Name) and isinstance(L.target, ast.Name) and E2.id == L.target.id) else \
        [ast.copy_location(ast.Assign(targets=[copy.deepcopy(L.target)], value=E2), L)]

    class C(ast.NodeTransformer):
      def visit_Continue(self, node):
        return [copy.deepcopy(st) for st in update2] + [node]

      def visit_For(self, node):
        return node
      visit_While = visit_AsyncFor = visit_FunctionDef = visit_AsyncFunctionDef = visit_Lambda = visit_For

    def fix(stmts):
      out = []
      for st in stmts:
        rr = C().visit(st)
        out.extend(rr if isinstance(rr, list) else [rr])
      return out
    new_loop = ast.While(test=ast.Constant(value=True), body=head + fix(L.body) + update2, orelse=[])
    ast.copy_location(new_loop, L)
    # replace L in its block
    done = False
    for n in ast.walk(F):
      for fld in ('body', 'orelse', 'finalbody'):
        blk = getattr(n, fld, None)
        if isinstance(blk, list) and any(x is L for x in blk):
          k = [i for i, x in enumerate(blk) if x is L][0]
          blk[k:k + 1] = init2 + [new_loop]
          done = True
      if isinstance(n, ast.Try):
        for h in n.handlers:
          if any(x is L for x in h.body):
            k = [i for i, x in enumerate(h.body) if x is L][0]
            h.body[k:k + 1] = init2 + [new_loop]
            done = True
    if done:
      if drop_assign is not None:
        for n in ast.walk(F):
          for fld in ('body', 'orelse', 'finalbody'):
            blk = getattr(n, fld, None)
            if isinstance(blk, list) and any(x is drop_assign for x in blk):
              blk.remove(drop_assign)
      gbody.remove(G)
      ast.fix_missing_locations(tree)
      stats['generators_fused'] = stats.get('generators_fused', 0) + 1


# ---------------------------------------------------------------- R5
def _const_expr(e):
  """Literal constants and arithmetic / tuples / simple string formatting over them."""
  if isinstance(e, ast.Constant):
    return not isinstance(e.value, (bytes,)) or True
  if isinstance(e, ast.UnaryOp) and isinstance(e.op, (ast.USub, ast.UAdd, ast.Invert)):
    return _const_expr(e.operand)
  if isinstance(e, ast.BinOp) and isinstance(e.op, (ast.Add, ast.Sub, ast.Mult, ast.Pow, ast.LShift, ast.RShift, ast.BitOr, ast.BitAnd, ast.FloorDiv)):
    return _const_expr(e.left) and _const_expr(e.right)
  if isinstance(e, ast.Tuple):
    return all(_const_expr(x) for x in e.elts)
  return False


def _mark(n):
  n._from_const = True
  return n


def _fold_marked(tree):
  """Arithmetic of two literal numbers where one of them was put there by constant inlining is evaluated (`spec[0 + 1:]` -> `spec[1:]`)."""
  import operator
  OPS = {ast.Add: operator.add, ast.Sub: operator.sub, ast.Mult: operator.mul, ast.FloorDiv: operator.floordiv, ast.LShift: operator.lshift,
         ast.RShift: operator.rshift, ast.BitOr: operator.or_, ast.BitAnd: operator.and_}

  class F(ast.NodeTransformer):
    def visit_BinOp(self, node):
      self.generic_visit(node)
      l, r = node.left, node.right
      if (isinstance(l, ast.Constant) and isinstance(r, ast.Constant) and type(node.op) in OPS and (getattr(l, '_from_const', False) or getattr(r, '_from_const', False))
          and isinstance(l.value, int) and isinstance(r.value, int) and not isinstance(l.value, bool) and not isinstance(r.value, bool)):
        try:
          v = OPS[type(node.op)](l.value, r.value)
        except Exception:
          return node
        if abs(v) < 2 ** 40:
          return _mark(ast.copy_location(ast.Constant(value=v), node))
      return node
  F().visit(tree)


def split_constant_tuples(trees, stats):
  """`A, B, C = range(3)` / `A, B = 1, 2` at module or class level: one plain constant assignment per name (what inline_new_constants reads)."""
  def walk(body):
    i = 0
    while i < len(body):
      st = body[i]
      if isinstance(st, ast.ClassDef):
        walk(st.body)
      elif (isinstance(st, ast.Assign) and len(st.targets) == 1 and isinstance(st.targets[0], (ast.Tuple, ast.List)) and all(isinstance(e, ast.Name) for e in st.targets[0].elts)):
        names = [e.id for e in st.targets[0].elts]
        vals = None
        v = st.value
        if (isinstance(v, ast.Call) and isinstance(v.func, ast.Name) and v.func.id == 'range' and not v.keywords and 1 <= len(v.args) <= 2
            and all(isinstance(a, ast.Constant) and isinstance(a.value, int) for a in v.args)):
          r = list(range(*[a.value for a in v.args]))
          if len(r) == len(names):
            vals = [ast.Constant(value=x) for x in r]
        elif isinstance(v, (ast.Tuple, ast.List)) and len(v.elts) == len(names) and all(_const_expr(e) for e in v.elts):
          vals = list(v.elts)
        if vals is not None and len(set(names)) == len(names):
          new = [ast.copy_location(ast.Assign(targets=[ast.Name(id=nm, ctx=ast.Store())], value=val), st) for nm, val in zip(names, vals)]
          body[i:i + 1] = new
          stats['constant_tuples_split'] = stats.get('constant_tuples_split', 0) + 1
          i += len(new)
          continue
      i += 1
  for tree in trees.values():
    walk(tree.body)
    ast.fix_missing_locations(tree)


def inline_new_name_tuples(trees, stats):
  """A new module-level `_KINDS = (ClassA, ClassB)` (a tuple of names the module binds once: classes, imports) is written out again where the module
  reads it (`isinstance(x, _KINDS)`): same objects, same order.  Only within its own module, and only when no other module imports the name."""
  b = load_baseline()
  base = b.get('constants')
  if base is None:
    return
  n = 0
  for rel, tree in trees.items():
    known = set(base.get(rel, []))
    bound = {}
    for st in tree.body:
      for nm in ([st.name] if isinstance(st, FN + (ast.ClassDef,)) else
                 [(a.asname or a.name).split('.')[0] for a in st.names] if isinstance(st, (ast.Import, ast.ImportFrom)) else
                 [t.id for t in st.targets if isinstance(t, ast.Name)] if isinstance(st, ast.Assign) else []):
        bound[nm] = bound.get(nm, 0) + 1
    for st in list(tree.body):
      if not (isinstance(st, ast.Assign) and len(st.targets) == 1 and isinstance(st.targets[0], ast.Name) and isinstance(st.value, ast.Tuple) and st.value.elts
              and all(isinstance(e, ast.Name) and bound.get(e.id) == 1 for e in st.value.elts)):
        continue
      X = st.targets[0].id
      if X in known or bound.get(X) != 1:
        continue
      if any(isinstance(x, ast.Name) and x.id == X and isinstance(x.ctx, (ast.Store, ast.Del)) and x is not st.targets[0] for x in ast.walk(tree)):
        continue
      if any(isinstance(a, ast.alias) and a.name == X for r2, t2 in trees.items() if r2 != rel for a in ast.walk(t2)):
        continue
      # the names must be bound before the first use either way: they are module-level definitions, uses sit in functions
      uses = [x for x in ast.walk(tree) if isinstance(x, ast.Name) and x.id == X and isinstance(x.ctx, ast.Load)]
      if not uses or any(any(u is y for y in ast.walk(top)) for u in uses for top in tree.body if not isinstance(top, FN + (ast.ClassDef,))):
        continue
      for u in uses:
        _replace_node(tree, u, ast.copy_location(copy.deepcopy(st.value), u))
      tree.body.remove(st)
      n += 1
    ast.fix_missing_locations(tree)
  if n:
    stats['name_tuples_inlined'] = n


def inline_new_constants(trees, stats):
  """A module-level or class-level name that the reference tree does not have, bound exactly once to a literal constant (numbers, strings,
  tuples and arithmetic of those), is replaced by its value wherever it is read ("named constant for a magic number"), across modules."""
  b = load_baseline()
  base = b.get('constants')
  if base is None:
    return
  modname = {}
  for rel in trees:
    nm = rel[:-3].replace('/', '.')
    if nm.endswith('.__init__'):
      nm = nm[:-9]
    modname[nm] = rel
  consts = {}      # rel -> {qualified name: value}
  for rel, tree in trees.items():
    known = set(base.get(rel, []))
    found = {}

    def walk(body, prefix, cls):
      for st in body:
        if isinstance(st, ast.ClassDef):
          walk(st.body, prefix + st.name + '.', st)
        elif isinstance(st, ast.Assign) and len(st.targets) == 1 and isinstance(st.targets[0], ast.Name) and _const_expr(st.value):
          q = prefix + st.targets[0].id
          if q not in known and not (st.targets[0].id.startswith('__') and st.targets[0].id.endswith('__')):
            found.setdefault(q, []).append((st, body, cls))
    walk(tree.body, '', None)
    for q, defs in found.items():
      if len(defs) != 1:
        continue
      name = q.split('.')[-1]
      st, body, cls = defs[0]
      # bound nowhere else in the module (any scope), never declared global, never an instance attribute
      other = [n for n in ast.walk(tree) if ((isinstance(n, ast.Name) and isinstance(n.ctx, (ast.Store, ast.Del)) and n.id == name) or
                                             (isinstance(n, ast.arg) and n.arg == name) or
                                             (isinstance(n, (ast.FunctionDef, ast.AsyncFunctionDef, ast.ClassDef)) and n.name == name) or
                                             (isinstance(n, ast.Attribute) and isinstance(n.ctx, (ast.Store, ast.Del)) and n.attr == name) or
                                             (isinstance(n, (ast.Global, ast.Nonlocal)) and name in n.names) or
                                             (isinstance(n, ast.ExceptHandler) and n.name == name) or
                                             (isinstance(n, ast.alias) and (n.asname or n.name) == name))
               and n is not st.targets[0]]
      if other:
        continue
      consts.setdefault(rel, {})[q] = (st, body, cls)
  if not consts:
    return
  n_sub = [0]
  for rel, table in consts.items():
    tree = trees[rel]
    for q, (st, body, cls) in table.items():
      name = q.split('.')[-1]
      val = st.value
      if cls is None:
        for p in ast.walk(tree):
          for fld, v in ast.iter_fields(p):
            if isinstance(v, ast.Name) and v.id == name and isinstance(v.ctx, ast.Load):
              setattr(p, fld, _mark(ast.copy_location(copy.deepcopy(val), v)))
              n_sub[0] += 1
            elif isinstance(v, list):
              for i, x in enumerate(v):
                if isinstance(x, ast.Name) and x.id == name and isinstance(x.ctx, ast.Load):
                  v[i] = _mark(ast.copy_location(copy.deepcopy(val), x))
                  n_sub[0] += 1
        # other modules: from <this module> import name  /  <alias>.name
        for rel2, tree2 in trees.items():
          if rel2 == rel:
            continue
          for imp in [x for x in tree2.body if isinstance(x, ast.ImportFrom)]:
            src = imp.module or ''
            if imp.level:
              basepkg = rel2[:-3].replace('/', '.').split('.')
              if not rel2.endswith('__init__.py'):
                basepkg = basepkg[:-1]
              if imp.level > 1:
                basepkg = basepkg[:-(imp.level - 1)]
              src = '.'.join(basepkg + ([imp.module] if imp.module else []))
            if modname.get(src) != rel:
              continue
            for a in list(imp.names):
              if a.name == name:
                loc = a.asname or a.name
                rebound = any(isinstance(n, ast.Name) and isinstance(n.ctx, (ast.Store, ast.Del)) and n.id == loc for n in ast.walk(tree2)) or \
                  any(isinstance(n, ast.arg) and n.arg == loc for n in ast.walk(tree2))
                if rebound:
                  continue
                for p in ast.walk(tree2):
                  for fld, v in ast.iter_fields(p):
                    if isinstance(v, ast.Name) and v.id == loc and isinstance(v.ctx, ast.Load):
                      setattr(p, fld, _mark(ast.copy_location(copy.deepcopy(val), v)))
                      n_sub[0] += 1
                    elif isinstance(v, list):
                      for i, x in enumerate(v):
                        if isinstance(x, ast.Name) and x.id == loc and isinstance(x.ctx, ast.Load):
                          v[i] = _mark(ast.copy_location(copy.deepcopy(val), x))
                          n_sub[0] += 1
                imp.names.remove(a)
            if not imp.names:
              tree2.body.remove(imp)
      else:
        # class constant: self.NAME / cls.NAME / <Class>.NAME anywhere in the package, bare NAME in the class body
        owners = ('self', 'cls', cls.name)
        for tree2 in trees.values():
          for p in ast.walk(tree2):
            for fld, v in ast.iter_fields(p):
              vs = v if isinstance(v, list) else [v]
              for i, x in enumerate(vs):
                if isinstance(x, ast.Attribute) and x.attr == name and isinstance(x.ctx, ast.Load) and ((isinstance(x.value, ast.Name) and x.value.id in owners) or
                                                                                                      (isinstance(x.value, ast.Attribute) and x.value.attr == cls.name)):
                  new = _mark(ast.copy_location(copy.deepcopy(val), x))
                  if isinstance(v, list):
                    v[i] = new
                  else:
                    setattr(p, fld, new)
                  n_sub[0] += 1
        for s2 in cls.body:
          if s2 is st or isinstance(s2, (ast.FunctionDef, ast.AsyncFunctionDef, ast.ClassDef)):
            continue
          for p in ast.walk(s2):
            for fld, v in ast.iter_fields(p):
              vs = v if isinstance(v, list) else [v]
              for i, x in enumerate(vs):
                if isinstance(x, ast.Name) and x.id == name and isinstance(x.ctx, ast.Load):
                  new = _mark(ast.copy_location(copy.deepcopy(val), x))
                  if isinstance(v, list):
                    v[i] = new
                  else:
                    setattr(p, fld, new)
                  n_sub[0] += 1
      body.remove(st)
      if not body:
        body.append(ast.Pass())
    ast.fix_missing_locations(tree)
  for tree in trees.values():
    _fold_marked(tree)
    ast.fix_missing_locations(tree)
  stats['constants_inlined'] = n_sub[0]


# ---------------------------------------------------------------- R6
def absorb_helper_classes(tree, rel, stats):
  """A new private class (not in the reference tree) that is instantiated exactly once, by `self.<holder> = _K(args)` in the constructor of one
  owner class, and only reached as `self.<holder>.<member>` from that owner, is absorbed: its constructor statements run at the place of the
  instantiation on the owner itself, its methods become private methods of the owner (then inlined like any new helper), and
  `self.<holder>.<x>` becomes `self.<x>` ("extract class" undone).  Attribute and method names must not collide with the owner's."""
  b = load_baseline()
  known_cls = set(b.get('class_inventory', {}).get(rel, []))
  if not b.get('class_inventory'):
    return
  for K in [s_ for s_ in list(tree.body) if isinstance(s_, ast.ClassDef)]:
    if K.name in known_cls or not K.name.startswith('_') or K.decorator_list or K.keywords:
      continue
    if any(not (isinstance(x, ast.Name) and x.id == 'object') for x in K.bases):
      continue
    members = [m for m in K.body if not (isinstance(m, ast.Expr) and isinstance(m.value, ast.Constant))]
    if not members or not all(isinstance(m, FN) and _plain(m) and not m.decorator_list for m in members):
      continue
    kinit = [m for m in members if m.name == '__init__']
    kmeths = [m for m in members if m.name != '__init__']
    if any(m.name.startswith('__') for m in kmeths):
      continue
    # the single instantiation
    uses = [n for n in ast.walk(tree) if isinstance(n, ast.Name) and n.id == K.name and not any(n is x for x in ast.walk(K))]
    if len(uses) != 1:
      continue
    site = owner = ometh = None
    for C in [s_ for s_ in ast.walk(tree) if isinstance(s_, ast.ClassDef) and s_ is not K]:
      for m in C.body:
        if isinstance(m, FN) and m.name == '__init__':
          for st in m.body:
            if (isinstance(st, ast.Assign) and len(st.targets) == 1 and isinstance(st.targets[0], ast.Attribute) and isinstance(st.targets[0].value, ast.Name)
                and st.targets[0].value.id == 'self' and isinstance(st.value, ast.Call) and st.value.func is uses[0]):
              site, owner, ometh = st, C, m
    if site is None:
      continue
    holder = site.targets[0].attr
    # every other mention of the holder is  self.<holder>.<member>  inside the owner
    ok = True
    refs = []
    for n in ast.walk(tree):
      if isinstance(n, ast.Attribute) and n.attr == holder and n is not site.targets[0]:
        ok = False       # a bare read of the holder object (passed around, compared, ...)
    parents = {}
    for n in ast.walk(owner):
      for ch in ast.iter_child_nodes(n):
        parents[id(ch)] = n
    ok = True
    for n in ast.walk(tree):
      if isinstance(n, ast.Attribute) and n.attr == holder and n is not site.targets[0]:
        par = parents.get(id(n))
        if not (isinstance(n.value, ast.Name) and n.value.id == 'self' and isinstance(par, ast.Attribute) and par.value is n):
          ok = False
        else:
          refs.append((par, n))
    if not ok:
      continue
    # names: attributes written by K, methods of K -- none may exist on the owner (or its textual ancestors in this module) already
    kattrs = set(x.attr for m in members for x in ast.walk(m) if isinstance(x, ast.Attribute) and isinstance(x.value, ast.Name) and x.value.id == 'self')
    oattrs = set(x.attr for x in ast.walk(owner) if isinstance(x, ast.Attribute) and isinstance(x.value, ast.Name) and x.value.id == 'self' and x.attr != holder)
    oattrs |= set(m.name for m in owner.body if isinstance(m, FN))
    mmap = dict((m.name, '_%s_%s' % (K.name.strip('_'), m.name)) for m in kmeths)
    if (kattrs - set(mmap)) & oattrs or set(mmap.values()) & oattrs:
      continue
    # constructor: parameters bound to the instantiation arguments
    init_body = []
    if kinit:
      ki = kinit[0]
      ps = params_of(ki)[1:]
      call = site.value
      if ki.args.vararg or ki.args.kwarg or ki.args.kwonlyargs or len(call.args) > len(ps) or any(isinstance(a, ast.Starred) for a in call.args):
        continue
      bind = dict(zip(ps, call.args))
      for kw in call.keywords:
        if kw.arg in ps and kw.arg not in bind:
          bind[kw.arg] = kw.value
      nd = len(ki.args.defaults)
      for pn, dv in zip(ps[len(ps) - nd:], ki.args.defaults):
        bind.setdefault(pn, dv)
      if set(ps) - set(bind):
        continue
      if any(not isinstance(v, (ast.Name, ast.Constant, ast.Attribute)) for v in bind.values()):
        continue
      init_body = [_Subst(bind).visit(copy.deepcopy(st)) for st in _strip_doc(ki.body)]
      if any(isinstance(x, (ast.Return, ast.Yield, ast.YieldFrom)) for st in init_body for x in ast.walk(st)):
        continue
    # rewrite
    class R(ast.NodeTransformer):
      def visit_Attribute(self, node):
        self.generic_visit(node)
        if isinstance(node.value, ast.Attribute) and node.value.attr == holder and isinstance(node.value.value, ast.Name) and node.value.value.id == 'self':
          return ast.copy_location(ast.Attribute(value=ast.Name(id='self', ctx=ast.Load()), attr=mmap.get(node.attr, node.attr), ctx=node.ctx), node)
        return node
    for m in owner.body:
      if isinstance(m, FN):
        R().visit(m)
    k = ometh.body.index(site)
    ometh.body[k:k + 1] = init_body or [ast.copy_location(ast.Pass(), site)]
    for m in kmeths:
      for x in ast.walk(m):
        if isinstance(x, ast.Attribute) and isinstance(x.value, ast.Name) and x.value.id == 'self' and x.attr in mmap:
          x.attr = mmap[x.attr]
      m.name = mmap[m.name]
      owner.body.append(m)
    tree.body.remove(K)
    ast.fix_missing_locations(tree)
    stats['classes_absorbed'] = stats.get('classes_absorbed', 0) + 1


# ---------------------------------------------------------------- R7
def absorb_state_classes(tree, rel, stats):
  """A new private class that only bundles the state of one function call -- `__init__` storing its arguments / simple expressions, plus
  methods -- and is instantiated inside a function (`obj = _K(args)` used as `obj.method` / `obj.attr`, or `_K(args).method` directly) is
  turned back into locals and nested functions of that function (`self.x` -> the local x, rebinding methods get `nonlocal x`)."""
  b = load_baseline()
  known_cls = set(b.get('class_inventory', {}).get(rel, []))
  if not b.get('class_inventory'):
    return
  for K in [s_ for s_ in list(tree.body) if isinstance(s_, ast.ClassDef)]:
    if K.name in known_cls or not K.name.startswith('_') or K.decorator_list or K.keywords:
      continue
    if any(not (isinstance(x, ast.Name) and x.id == 'object') for x in K.bases):
      continue
    members = [m for m in K.body if not (isinstance(m, ast.Expr) and isinstance(m.value, ast.Constant))
               and not (isinstance(m, ast.Assign) and len(m.targets) == 1 and isinstance(m.targets[0], ast.Name) and m.targets[0].id == '__slots__')]
    if not members or not all(isinstance(m, FN) and not m.decorator_list for m in members):
      continue
    kinit = [m for m in members if m.name == '__init__']
    kmeths = [m for m in members if m.name != '__init__']
    if len(kinit) != 1 or not kmeths or any(m.name.startswith('__') for m in kmeths):
      continue
    ki = kinit[0]
    if ki.args.vararg or ki.args.kwarg or ki.args.kwonlyargs or ki.args.defaults:
      continue
    fields = []
    simple = True
    for st in _strip_doc(ki.body):
      if (isinstance(st, ast.Assign) and len(st.targets) == 1 and isinstance(st.targets[0], ast.Attribute) and isinstance(st.targets[0].value, ast.Name)
          and st.targets[0].value.id == 'self' and not any(isinstance(x, ast.Name) and x.id == 'self' for x in ast.walk(st.value))):
        fields.append((st.targets[0].attr, st.value))
      else:
        simple = False
    if not simple or len(set(f for f, _ in fields)) != len(fields):
      continue
    fnames = set(f for f, _ in fields)
    # methods touch only the fields (no other attribute of self, no use of self as a value)
    okm = True
    for m in kmeths:
      selfname = params_of(m)[0] if params_of(m) else None
      if selfname != 'self' or _is_static(m):
        okm = False
        break
      for x in ast.walk(m):
        if isinstance(x, ast.Name) and x.id == 'self':
          par_ok = any(isinstance(p_, ast.Attribute) and p_.value is x and p_.attr in fnames for p_ in ast.walk(m))
          if not par_ok:
            okm = False
    if not okm:
      continue
    uses = [n for n in ast.walk(tree) if isinstance(n, ast.Name) and n.id == K.name and not any(n is x for x in ast.walk(K))]
    if not uses:
      continue
    encl = _enclosing_map(tree)
    done_all = True
    for use in uses:
      G = encl.get(id(use), (None, None))[0]
      if G is None or not _absorb_state_site(tree, G, K, ki, kmeths, fields, use):
        done_all = False
    if done_all:
      tree.body.remove(K)
      ast.fix_missing_locations(tree)
      stats['classes_absorbed'] = stats.get('classes_absorbed', 0) + 1


def _absorb_state_site(tree, G, K, ki, kmeths, fields, use):
  # the statement of G (at any block depth, not in nested defs) that holds the instantiation
  holder = None
  for blk_owner in [G] + [n for n in own_nodes(G) if not isinstance(n, FN)]:
    for fld in ('body', 'orelse', 'finalbody'):
      blk = getattr(blk_owner, fld, None)
      if isinstance(blk, list) and blk and isinstance(blk[0], ast.stmt):
        for st in blk:
          if isinstance(st, (ast.Assign, ast.Expr, ast.Return)) and any(x is use for x in ast.walk(st)):
            holder = (blk, st)
  if holder is None:
    return False
  blk, st = holder
  call = [c for c in ast.walk(st) if isinstance(c, ast.Call) and c.func is use]
  if len(call) != 1:
    return False
  call = call[0]
  ps = params_of(ki)[1:]
  if call.keywords or len(call.args) != len(ps) or any(isinstance(a, ast.Starred) for a in call.args):
    return False
  bind = dict(zip(ps, call.args))
  gnames = _scope_names(G)
  fnames = [f for f, _ in fields]
  mnames = dict((m.name, m.name) for m in kmeths)
  # how the instance is used
  obj = None
  if isinstance(st, ast.Assign) and st.value is call and len(st.targets) == 1 and isinstance(st.targets[0], ast.Name):
    obj = st.targets[0].id
    stores = [n for n in ast.walk(G) if isinstance(n, ast.Name) and n.id == obj and isinstance(n.ctx, ast.Store)]
    if len(stores) != 1:
      return False
    for n in ast.walk(G):
      if isinstance(n, ast.Name) and n.id == obj and isinstance(n.ctx, ast.Load):
        par = [p_ for p_ in ast.walk(G) if isinstance(p_, ast.Attribute) and p_.value is n]
        if not par or par[0].attr not in fnames + list(mnames):
          return False
  else:
    par = [p_ for p_ in ast.walk(st) if isinstance(p_, ast.Attribute) and p_.value is call]
    if len(par) != 1 or par[0].attr not in mnames:
      return False
  # local names for the fields: the argument name itself when the field just stores a stable argument, else the field name
  local = {}
  pre = []
  mutated = set(x.attr for m in kmeths for x in ast.walk(m) if isinstance(x, ast.Attribute) and isinstance(x.ctx, (ast.Store, ast.Del))
                and isinstance(x.value, ast.Name) and x.value.id == 'self')
  for f, v in fields:
    v2 = _Subst(bind).visit(copy.deepcopy(v))
    if isinstance(v2, ast.Name) and v2.id in gnames and f not in mutated:
      local[f] = v2.id
    else:
      nm = f.lstrip('_') or f
      if nm in gnames and nm != obj:
        return False
      local[f] = nm
      pre.append(ast.copy_location(ast.Assign(targets=[ast.Name(id=nm, ctx=ast.Store())], value=v2), st))
  if len(set(local.values())) != len(local):
    return False
  defs = []
  for m in kmeths:
    mm = copy.deepcopy(m)
    assigned = set()

    class S(ast.NodeTransformer):
      def visit_Attribute(self, node):
        self.generic_visit(node)
        if isinstance(node.value, ast.Name) and node.value.id == 'self' and node.attr in local:
          if isinstance(node.ctx, (ast.Store, ast.Del)):
            assigned.add(local[node.attr])
          return ast.copy_location(ast.Name(id=local[node.attr], ctx=node.ctx), node)
        return node
    mm = S().visit(mm)
    for a_ in ast.walk(mm):
      if isinstance(a_, ast.AugAssign) and isinstance(a_.target, ast.Name) and a_.target.id in local.values():
        assigned.add(a_.target.id)
    own = set(params_of(m)[1:]) | set(n_ for n_, _ in local_defs_fp(m)[1])
    if own & set(local.values()):
      return False
    mm.args.args = mm.args.args[1:] if not mm.args.posonlyargs else mm.args.args
    if mm.args.posonlyargs:
      mm.args.posonlyargs = mm.args.posonlyargs[1:]
    body = _strip_doc(mm.body)
    if assigned:
      body = [ast.Nonlocal(names=sorted(assigned))] + body
    mm.body = body or [ast.Pass()]
    if mm.name in gnames and mm.name != obj:
      mm.name = mm.name + '__k'
    mnames[m.name] = mm.name
    defs.append(mm)

  class U2(ast.NodeTransformer):
    def visit_Attribute(self, node):
      self.generic_visit(node)
      if (obj is not None and isinstance(node.value, ast.Name) and node.value.id == obj) or node.value is call:
        if node.attr in local:
          return ast.copy_location(ast.Name(id=local[node.attr], ctx=node.ctx), node)
        if node.attr in mnames:
          return ast.copy_location(ast.Name(id=mnames[node.attr], ctx=ast.Load()), node)
      return node
  k = blk.index(st)
  for i_ in range(len(G.body)):       # in place: the statement lists keep their identity
    G.body[i_] = U2().visit(G.body[i_])
  if obj is not None:
    blk[k:k + 1] = pre + defs
  else:
    blk[k:k] = pre + defs
  ast.fix_missing_locations(G)
  return True


# ---------------------------------------------------------------- R8
def demote_new_namedtuples(trees, stats):
  """A module-level `_T = namedtuple('_T', fields)` that the reference tree does not have (a plain tuple given field names): constructor calls
  become tuple displays again (fields in declaration order), and `<v>.<field>` becomes `<v>[index]` for a local v on which only fields of _T are read."""
  b = load_baseline()
  base = b.get('constants')
  if base is None:
    return
  found = {}   # name -> (rel, fields, stmt)
  for rel, tree in trees.items():
    known = set(base.get(rel, []))
    for st in tree.body:
      if (isinstance(st, ast.Assign) and len(st.targets) == 1 and isinstance(st.targets[0], ast.Name) and isinstance(st.value, ast.Call)
          and ast.unparse(st.value.func).split('.')[-1] == 'namedtuple' and len(st.value.args) == 2 and not st.value.keywords and st.targets[0].id not in known):
        f = st.value.args[1]
        if isinstance(f, ast.Constant) and isinstance(f.value, str):
          fields = f.value.replace(',', ' ').split()
        elif isinstance(f, (ast.List, ast.Tuple)) and all(isinstance(e, ast.Constant) and isinstance(e.value, str) for e in f.elts):
          fields = [e.value for e in f.elts]
        else:
          continue
        found[st.targets[0].id] = (rel, fields, st)
  if not found:
    return
  n = 0
  for rel, tree in trees.items():
    for T, (trel, fields, tst) in found.items():
      visible = trel == rel or any(isinstance(i, ast.ImportFrom) and any((a.asname or a.name) == T for a in i.names) for i in tree.body)
      if not visible:
        continue
      # constructor calls
      bad_use = [False]

      class C(ast.NodeTransformer):
        def visit_Call(self, node):
          self.generic_visit(node)
          if isinstance(node.func, ast.Name) and node.func.id == T:
            vals = {}
            if any(isinstance(a, ast.Starred) for a in node.args) or len(node.args) > len(fields):
              bad_use[0] = True
              return node
            for fn_, a in zip(fields, node.args):
              vals[fn_] = a
            for k in node.keywords:
              if k.arg is None or k.arg not in fields or k.arg in vals:
                bad_use[0] = True
                return node
              vals[k.arg] = k.value
            if set(vals) != set(fields):
              bad_use[0] = True
              return node
            # evaluation order of the arguments must be the field order (or the reordered ones are pure)
            given = [a for a in node.args] + [k.value for k in node.keywords]
            ordered = [vals[fn_] for fn_ in fields]
            if [id(x) for x in given] != [id(x) for x in ordered] and not all(isinstance(x, (ast.Name, ast.Constant, ast.Attribute)) for x in given):
              bad_use[0] = True
              return node
            return ast.copy_location(ast.Tuple(elts=ordered, ctx=ast.Load()), node)
          return node
      C().visit(tree)
      # field reads on locals
      for fn in [x for x in ast.walk(tree) if isinstance(x, FN)]:
        params = set(params_of(fn))
        by_name = {}
        for a in ast.walk(fn):
          if isinstance(a, ast.Attribute) and isinstance(a.value, ast.Name) and isinstance(a.ctx, ast.Load):
            by_name.setdefault(a.value.id, []).append(a)
        for v, accs in by_name.items():
          if v in ('self', 'cls') or v in params:
            continue
          attrs = set(a.attr for a in accs)
          if not attrs or not attrs <= set(fields):
            continue
          owners = [t for t, (_, fl, _) in found.items() if attrs <= set(fl)]
          if owners != [T] and T not in owners:
            continue
          # v must be a local of fn bound in fn
          if not any(isinstance(x, ast.Name) and x.id == v and isinstance(x.ctx, ast.Store) for x in ast.walk(fn)):
            continue
          for a in accs:
            idx = fields.index(a.attr)
            _replace_node(fn, a, ast.copy_location(ast.Subscript(value=ast.Name(id=v, ctx=ast.Load()), slice=ast.Constant(value=idx), ctx=ast.Load()), a))
            n += 1
      if not bad_use[0] and trel == rel and not any(isinstance(x, ast.Name) and x.id == T and isinstance(x.ctx, ast.Load) for x in ast.walk(tree)):
        tree.body.remove(tst)
      ast.fix_missing_locations(tree)
  stats['namedtuples_demoted'] = len(found)


# ---------------------------------------------------------------- R9
def import_cross_module_helpers(trees, stats):
  """A new private module-level function of module A that module B imports by name (`from ..a import _helper`) is copied into B (with the imports it
  needs), so that the per-module helper inlining sees it; a new private *static* method that other classes of its module call as `Cls._h(...)` becomes a
  module-level function of that module first."""
  b = load_baseline()
  inv = b.get('inventory', {})
  modname = {}
  for rel in trees:
    nm = rel[:-3].replace('/', '.')
    if nm.endswith('.__init__'):
      nm = nm[:-9]
    modname[nm] = rel
  # static helpers used across classes -> module level
  for rel, tree in trees.items():
    known = set(inv.get(rel, []))
    if not known:
      continue
    for C in [x for x in tree.body if isinstance(x, ast.ClassDef)]:
      for m in list(C.body):
        if not (isinstance(m, FN) and _is_static(m) and _plain(m) and not m.name.startswith('__') and (C.name + '.' + m.name) not in known):
          continue
        outside = [n for n in ast.walk(tree) if isinstance(n, ast.Attribute) and n.attr == m.name and isinstance(n.value, ast.Name) and n.value.id == C.name
                   and not any(n is x for x in ast.walk(C))]
        others = [n for n in ast.walk(tree) if isinstance(n, ast.Attribute) and n.attr == m.name and not (isinstance(n.value, ast.Name) and n.value.id in ('self', 'cls', C.name))]
        if not outside or others:
          continue
        new_name = '_%s_%s' % (C.name.strip('_'), m.name.strip('_'))
        if any(isinstance(x, ast.Name) and x.id == new_name for x in ast.walk(tree)):
          continue
        for p_ in ast.walk(tree):
          for fld, v in ast.iter_fields(p_):
            vs = v if isinstance(v, list) else [v]
            for i, x in enumerate(vs):
              if isinstance(x, ast.Attribute) and x.attr == m.name and isinstance(x.value, ast.Name) and x.value.id in ('self', 'cls', C.name):
                new = ast.copy_location(ast.Name(id=new_name, ctx=ast.Load()), x)
                if isinstance(v, list):
                  v[i] = new
                else:
                  setattr(p_, fld, new)
        C.body.remove(m)
        m.decorator_list = []
        m.name = new_name
        tree.body.insert(tree.body.index(C), m)
        stats['static_helpers_lifted'] = stats.get('static_helpers_lifted', 0) + 1
      if not C.body:
        C.body.append(ast.Pass())
    ast.fix_missing_locations(tree)
  # imported helpers
  for rel, tree in trees.items():
    for imp in [x for x in list(tree.body) if isinstance(x, ast.ImportFrom)]:
      src = imp.module or ''
      if imp.level:
        basepkg = rel[:-3].replace('/', '.').split('.')
        if not rel.endswith('__init__.py'):
          basepkg = basepkg[:-1]
        if imp.level > 1:
          basepkg = basepkg[:-(imp.level - 1)]
        src = '.'.join(basepkg + ([imp.module] if imp.module else []))
      arel = modname.get(src)
      if arel is None or arel == rel:
        continue
      atree = trees[arel]
      aknown = set(inv.get(arel, []))
      for al in list(imp.names):
        if al.asname or al.name.startswith('__') or al.name in aknown:
          continue
        hd = [x for x in atree.body if isinstance(x, FN) and x.name == al.name and _plain(x) and not x.decorator_list]
        if len(hd) != 1:
          continue
        h = hd[0]
        if any(isinstance(x, FN) and x.name == al.name for x in tree.body) or any(isinstance(n, (ast.Yield, ast.YieldFrom)) for n in own_nodes(h)):
          continue
        # free names of the helper must be bound in B, or be importable the way A imports them
        params = set(params_of(h))
        _, locs = local_defs_fp(h)
        bound_local = params | set(n for n, _ in locs)
        free = set(n.id for n in ast.walk(h) if isinstance(n, ast.Name) and isinstance(n.ctx, ast.Load)) - bound_local - set(dir(__builtins__) if not isinstance(__builtins__, dict) else __builtins__)
        bnames = set()
        for st in tree.body:
          if isinstance(st, (ast.Import, ast.ImportFrom)):
            for a in st.names:
              bnames.add((a.asname or a.name).split('.')[0])
          elif isinstance(st, (FN + (ast.ClassDef,))):
            bnames.add(st.name)
          elif isinstance(st, ast.Assign):
            for t in st.targets:
              for x in ast.walk(t):
                if isinstance(x, ast.Name):
                  bnames.add(x.id)
        need = free - bnames
        extra = []
        ok = True
        # names bound in both modules must be the same thing there
        a_bound = _bound_names(atree)
        for nm in sorted(free & bnames & a_bound):
          if _binding_text(tree, rel, nm, modname) != _binding_text(atree, arel, nm, modname):
            ok = False
        for nm in sorted(need):
          got = None
          for st in atree.body:
            if isinstance(st, ast.ImportFrom) and st.level == 0:
              for a in st.names:
                if (a.asname or a.name) == nm:
                  got = ast.ImportFrom(module=st.module, names=[ast.alias(name=a.name, asname=a.asname)], level=0)
            elif isinstance(st, ast.ImportFrom) and st.level:
              for a in st.names:
                if (a.asname or a.name) == nm:
                  # re-anchor the relative import at the package root
                  ab = arel[:-3].replace('/', '.').split('.')
                  if not arel.endswith('__init__.py'):
                    ab = ab[:-1]
                  if st.level > 1:
                    ab = ab[:-(st.level - 1)]
                  got = ast.ImportFrom(module='.'.join(ab + ([st.module] if st.module else [])), names=[ast.alias(name=a.name, asname=a.asname)], level=0)
            elif isinstance(st, ast.Import):
              for a in st.names:
                if (a.asname or a.name).split('.')[0] == nm:
                  got = ast.Import(names=[ast.alias(name=a.name, asname=a.asname)])
          if got is None and any((isinstance(st, FN + (ast.ClassDef,)) and st.name == nm) or (isinstance(st, ast.Assign) and any(isinstance(t, ast.Name) and t.id == nm for t in st.targets))
                                 for st in atree.body):
            got = ast.ImportFrom(module=src, names=[ast.alias(name=nm, asname=None)], level=0)     # defined by A itself
          if got is None:
            ok = False
            break
          extra.append(got)
        if not ok:
          continue
        k = tree.body.index(imp)
        cp = copy.deepcopy(h)
        tree.body[k + 1:k + 1] = extra + [cp]
        imp.names.remove(al)
        stats['helpers_imported'] = stats.get('helpers_imported', 0) + 1
      if not imp.names:
        tree.body.remove(imp)
    ast.fix_missing_locations(tree)


# ---------------------------------------------------------------- drivers
def _note_signatures(trees):
  """Positional parameter lists of every function, method (without self/cls), class constructor and namedtuple of the package, by bare name."""
  from . import normalize
  sigs = {}

  def add(name, params):
    sigs.setdefault(name, [])
    if params not in sigs[name]:
      sigs[name].append(params)
  for tree in trees.values():
    for n in ast.walk(tree):
      if isinstance(n, ast.ClassDef):
        for m in n.body:
          if isinstance(m, FN):
            ps = [a.arg for a in m.args.posonlyargs + m.args.args]
            static = any(ast.unparse(d) == 'staticmethod' for d in m.decorator_list)
            if not static:
              ps = ps[1:]
            if m.args.vararg:
              ps = ps + [None]
            add(m.name, ps)
            if m.name == '__init__':
              add(n.name, ps)
      elif isinstance(n, ast.Assign) and isinstance(n.value, ast.Call) and ast.unparse(n.value.func).split('.')[-1] == 'namedtuple' and len(n.value.args) == 2 \
          and len(n.targets) == 1 and isinstance(n.targets[0], ast.Name):
        f = n.value.args[1]
        if isinstance(f, ast.Constant) and isinstance(f.value, str):
          add(n.targets[0].id, f.value.replace(',', ' ').split())
        elif isinstance(f, (ast.List, ast.Tuple)) and all(isinstance(e, ast.Constant) for e in f.elts):
          add(n.targets[0].id, [e.value for e in f.elts])
    for n in tree.body:
      if isinstance(n, FN):
        ps = [a.arg for a in n.args.posonlyargs + n.args.args]
        if n.args.vararg:
          ps = ps + [None]
        add(n.name, ps)
    for c in [x for x in ast.walk(tree) if isinstance(x, FN)]:
      for n in c.body:
        if isinstance(n, FN):
          ps = [a.arg for a in n.args.posonlyargs + n.args.args]
          add(n.name, ps + ([None] if n.args.vararg else []))
  normalize.PACKAGE_SIGNATURES.clear()
  normalize.PACKAGE_SIGNATURES.update(sigs)
  # constant defaults: name -> parameter -> set of default texts over all definitions of that name ('<none>' when a definition has no constant default)
  dfl = {}
  for tree in trees.values():
    for n in ast.walk(tree):
      if isinstance(n, FN):
        ps = n.args.posonlyargs + n.args.args
        ds = [None] * (len(ps) - len(n.args.defaults)) + list(n.args.defaults)
        d = dfl.setdefault(n.name, {})
        seen = set()
        for a, dv in zip(ps, ds):
          seen.add(a.arg)
          d.setdefault(a.arg, set()).add(ast.unparse(dv) if isinstance(dv, ast.Constant) else '<none>')
        for a, dv in zip(n.args.kwonlyargs, n.args.kw_defaults):
          seen.add(a.arg)
          d.setdefault(a.arg, set()).add(ast.unparse(dv) if isinstance(dv, ast.Constant) else '<none>')
        d.setdefault('<defs>', []).append(seen)
  for nm, d in dfl.items():
    defs = d.pop('<defs>')
    for pn in list(d):
      if not all(pn in s for s in defs):
        d[pn] = d[pn] | {'<none>'}
  normalize.PACKAGE_DEFAULTS.clear()
  normalize.PACKAGE_DEFAULTS.update(dfl)


def _note_stable_attrs(trees):
  from . import normalize
  bound_init, bound_other = set(), set()
  for rel, tree in trees.items():
    for c in [x for x in ast.walk(tree) if isinstance(x, ast.ClassDef)]:
      for m in c.body:
        if not isinstance(m, FN):
          continue
        for n in ast.walk(m):
          if isinstance(n, ast.Attribute) and isinstance(n.ctx, (ast.Store, ast.Del)):
            (bound_init if m.name == '__init__' and isinstance(n.value, ast.Name) and n.value.id == 'self' else bound_other).add(n.attr)
    inits = set(id(x) for c in ast.walk(tree) if isinstance(c, ast.ClassDef) for m in c.body if isinstance(m, FN) and m.name == '__init__' for x in ast.walk(m))
    for n in ast.walk(tree):
      if isinstance(n, ast.Call) and isinstance(n.func, ast.Name) and n.func.id in ('setattr', 'delattr'):
        if not (id(n) in inits and n.args and isinstance(n.args[0], ast.Name) and n.args[0].id == 'self'):
          bound_other.add('*')
  normalize.STABLE_ATTRS.clear()
  if '*' not in bound_other:
    normalize.STABLE_ATTRS.update(a for a in bound_init - bound_other if a.startswith('_'))
    # class-body constants read through self (`Idle = ...` in the class body) that no code anywhere stores through an attribute
    stored = set(n.attr for tree in trees.values() for n in ast.walk(tree) if isinstance(n, ast.Attribute) and isinstance(n.ctx, (ast.Store, ast.Del)))
    consts, funcs = set(), set()
    for tree in trees.values():
      for c in [x for x in ast.walk(tree) if isinstance(x, ast.ClassDef)]:
        for m in c.body:
          if isinstance(m, ast.Assign) and len(m.targets) == 1 and isinstance(m.targets[0], ast.Name):
            consts.add(m.targets[0].id)
          elif isinstance(m, FN + (ast.ClassDef,)):
            funcs.add(m.name)
    normalize.STABLE_ATTRS.update(consts - stored - funcs)



def inline_new_properties(trees, stats):
  """A read-only @property that the reference tree does not have and whose body is one `return <expr over self>` (a named predicate):
  every `<receiver>.<name>` load is the expression again with the receiver in place of self.  Only when the name is new to the whole package
  (no reference source mentions `.<name>`), is never stored, has no setter, and the receiver is a plain name/attribute chain."""
  b = load_baseline()
  inv = b.get('inventory', {})
  srcs = b.get('sources') or {}
  alltext = '\n'.join(srcs.values()) if isinstance(srcs, dict) else ''
  if not alltext:
    return
  found = {}
  dup = set()
  for rel, tree in trees.items():
    known = set(inv.get(rel, []))
    for c in ast.walk(tree):
      if not isinstance(c, ast.ClassDef):
        continue
      for m in c.body:
        if not (isinstance(m, ast.FunctionDef) and len(m.decorator_list) == 1 and ast.unparse(m.decorator_list[0]) == 'property'):
          continue
        if any(q.endswith('.' + m.name) or q == m.name for q in known) or re.search(r'(\.|def\s+|[\'"])%s\b' % re.escape(m.name), alltext):
          continue
        body = [x for x in m.body if not (isinstance(x, ast.Expr) and isinstance(x.value, ast.Constant) and isinstance(x.value.value, str))]
        if len(body) != 1 or not isinstance(body[0], ast.Return) or body[0].value is None:
          continue
        a = m.args
        if len(a.args) != 1 or a.vararg or a.kwarg or a.kwonlyargs or a.posonlyargs:
          continue
        e = body[0].value
        if any(isinstance(n, (ast.Lambda, ast.ListComp, ast.SetComp, ast.DictComp, ast.GeneratorExp, ast.NamedExpr, ast.Yield, ast.YieldFrom, ast.Await)) for n in ast.walk(e)):
          continue
        if m.name in found:
          dup.add(m.name)
        found[m.name] = (rel, c, m, a.args[0].arg, e)
  for d in dup:
    found.pop(d, None)
  if not found:
    return
  # never stored / deleted / used with a setter
  for rel, tree in trees.items():
    for n in ast.walk(tree):
      if isinstance(n, ast.Attribute) and n.attr in found:
        if not isinstance(n.ctx, ast.Load):
          found.pop(n.attr, None)
        elif not _pure_chain(n.value):
          found.pop(n.attr, None)
      elif isinstance(n, ast.Attribute) and n.attr in ('setter', 'deleter') and isinstance(n.value, ast.Name) and n.value.id in found:
        found.pop(n.value.id, None)
      elif isinstance(n, ast.Constant) and isinstance(n.value, str) and n.value in found:
        found.pop(n.value, None)      # getattr(obj, 'name')
  if not found:
    return
  cnt = [0]

  class Sub(ast.NodeTransformer):
    def visit_Attribute(self, node):
      self.generic_visit(node)
      if isinstance(node.ctx, ast.Load) and node.attr in found:
        rel, c, m, selfname, e = found[node.attr]
        recv = node.value

        class R(ast.NodeTransformer):
          def visit_Name(self, nn):
            if nn.id == selfname:
              return copy.deepcopy(recv)
            return nn
        cnt[0] += 1
        return ast.copy_location(R().visit(copy.deepcopy(e)), node)
      return node

  for _ in range(3):        # a predicate written with another new predicate
    before = cnt[0]
    for rel, tree in trees.items():
      Sub().visit(tree)
    for nm, (rel, c, m, selfname, e) in list(found.items()):
      found[nm] = (rel, c, m, selfname, m.body[-1].value)
    if cnt[0] == before:
      break
  for nm, (rel, c, m, selfname, e) in found.items():
    c.body = [x for x in c.body if x is not m] or [ast.Pass()]
  for rel, tree in trees.items():
    ast.fix_missing_locations(tree)
  stats['properties_inlined'] = stats.get('properties_inlined', 0) + cnt[0]


def _pure_chain(n):
  while isinstance(n, ast.Attribute):
    n = n.value
  return isinstance(n, ast.Name)


def push_down_new_base_methods(trees, stats):
  """Pull-up-method undone: a plain method that the reference tree does not have in class B, while B has textual subclasses in the package,
  is copied into every subclass that does not define it (where it is either the subclass's own reference method again, possibly under a
  mangled name that the attribute renaming pairs up, or a new helper that gets inlined), and dropped from B when B itself does not use it."""
  b = load_baseline()
  inv = b.get('inventory', {})
  classes = []     # (rel, ClassDef)
  for rel, tree in trees.items():
    for c in tree.body:
      if isinstance(c, ast.ClassDef):
        classes.append((rel, c))
  n = 0
  cinv_all = b.get('class_inventory', {})
  for rel, B in list(classes):
    known = set(inv.get(rel, []))
    if not any(q.startswith(B.name + '.') for q in known):
      # a NEW class used as a base ("extract superclass" / mixin): its plain methods (constructor included) go back into every textual subclass
      # that lacks them, and it disappears from their bases
      if B.name in set(cinv_all.get(rel, [])) or any(B.name in v for v in cinv_all.values()):
        continue
      subs = [(r2, d) for r2, d in classes if d is not B and any(ast.unparse(x).split('.')[-1] == B.name for x in d.bases)]
      members = [m for m in B.body if not (isinstance(m, ast.Expr) and isinstance(m.value, ast.Constant))
                 and not (isinstance(m, ast.Assign) and ast.unparse(m.targets[0]) == '__slots__')]
      if not subs or not members or not all(isinstance(m, ast.FunctionDef) and not m.decorator_list for m in members):
        continue
      if any(ast.unparse(x) != 'object' for x in B.bases) or any(isinstance(x, ast.Name) and x.id == 'super' for m in members for x in ast.walk(m)):
        continue
      other_refs = [x for r2, t2 in trees.items() for x in ast.walk(t2) if isinstance(x, ast.Name) and x.id == B.name
                    and not any(x is y for _, d in subs for y in d.bases)]
      if other_refs:
        continue
      # the methods must mean the same in the subclass's module: every module-level name they read is bound to the same thing there
      modname_ = {}
      for r_ in trees:
        nm_ = r_[:-3].replace('/', '.')
        modname_[nm_[:-9] if nm_.endswith('.__init__') else nm_] = r_
      same = True
      free_ = set(x.id for m in members for x in ast.walk(m) if isinstance(x, ast.Name) and isinstance(x.ctx, ast.Load))
      bound_b = _bound_names(trees[rel])
      for r2, d in subs:
        if r2 == rel:
          continue
        for nm_ in free_ & bound_b:
          if _binding_text(trees[rel], rel, nm_, modname_) != _binding_text(trees[r2], r2, nm_, modname_):
            same = False
      if not same:
        continue
      # only a base listed FIRST is sure to win the method lookup over the other bases
      if any(ast.unparse(d.bases[0]).split('.')[-1] != B.name for r2, d in subs):
        continue
      for r2, d in subs:
        have = set(f.name for f in d.body if isinstance(f, ast.FunctionDef))
        for m in members:
          if m.name not in have:
            d.body.append(copy.deepcopy(m))
            n += 1
        d.bases = [x for x in d.bases if ast.unparse(x).split('.')[-1] != B.name] or [ast.Name(id='object', ctx=ast.Load())]
      for r2, t2 in trees.items():
        if any(x is B for x in t2.body):
          t2.body.remove(B)
        for imp in [x for x in t2.body if isinstance(x, ast.ImportFrom)]:
          imp.names = [a for a in imp.names if a.name != B.name]
          if not imp.names:
            t2.body.remove(imp)
      classes[:] = [(r_, c_) for r_, c_ in classes if c_ is not B]
      continue
    subs = [(r2, d) for r2, d in classes if d is not B and any(ast.unparse(x).split('.')[-1] == B.name for x in d.bases)]
    # ... and the classes derived from those (a helper pulled up two levels): by class name, as long as names are unique in the package
    names_ = [d.name for _, d in classes]
    uniq_ = set(nm for nm in names_ if names_.count(nm) == 1)
    if B.name in uniq_:
      grew = True
      while grew:
        grew = False
        have_ = (set(d.name for _, d in subs) | {B.name}) & uniq_
        for r2, d in classes:
          if d is not B and not any(d is d2 for _, d2 in subs) and any(ast.unparse(x).split('.')[-1] in have_ for x in d.bases):
            subs.append((r2, d))
            grew = True
    if not subs:
      continue
    for m in list(B.body):
      if not isinstance(m, ast.FunctionDef) or m.decorator_list or (m.name.startswith('__') and m.name.endswith('__')):
        continue
      if (B.name + '.' + m.name) in known or (B.name + '.' + m.name.lstrip('_')) in known:
        continue
      if any((B.name + '.' + pre + m.name.lstrip('_')) in known for pre in ('_', '__')):
        continue
      if any(isinstance(x, (ast.Yield, ast.YieldFrom)) for x in own_nodes(m)) and False:
        continue
      # super() calls inside would change meaning when moved
      if any(isinstance(x, ast.Name) and x.id == 'super' for x in ast.walk(m)):
        continue
      # some subclass must have had it in the reference tree or use it now
      stem = m.name.lstrip('_')
      def _had(r2, d):
        k2 = set(inv.get(r2, []))
        return any((d.name + '.' + pre + stem) in k2 for pre in ('', '_', '__'))
      def _uses(c, skip=None):
        return any(isinstance(x, ast.Attribute) and x.attr == m.name and isinstance(x.value, ast.Name) and x.value.id == 'self'
                   for f in c.body if f is not skip for x in ast.walk(f))
      if not any(_had(r2, d) or _uses(d) for r2, d in subs):
        continue
      if any(isinstance(f, ast.FunctionDef) and f.name == m.name for _, d in classes if d is not B for f in d.body):
        continue       # (defined elsewhere too: which one a subclass sees depends on the chain in between)
      for r2, d in subs:
        if any(isinstance(f, ast.FunctionDef) and f.name == m.name for f in d.body):
          continue
        if not (_had(r2, d) or _uses(d)):
          continue
        if r2 != rel:
          modname_ = {}
          for r_ in trees:
            nm_ = r_[:-3].replace('/', '.')
            modname_[nm_[:-9] if nm_.endswith('.__init__') else nm_] = r_
          fr_ = set(x.id for x in ast.walk(m) if isinstance(x, ast.Name) and isinstance(x.ctx, ast.Load)) & _bound_names(trees[rel])
          if any(_binding_text(trees[rel], rel, nm_, modname_) != _binding_text(trees[r2], r2, nm_, modname_) for nm_ in fr_):
            continue       # a module-level name the method reads means something else in the subclass's module
        d.body.append(copy.deepcopy(m))
        n += 1
      if not _uses(B, skip=m):
        B.body = [x for x in B.body if x is not m] or [ast.Pass()]
  if n:
    stats['pushed_down'] = stats.get('pushed_down', 0) + n


def _note_struct_consts(trees):
  from . import normalize
  out = {}
  for tree in trees.values():
    for c in tree.body:
      if isinstance(c, ast.ClassDef):
        for st in c.body:
          if (isinstance(st, ast.Assign) and len(st.targets) == 1 and isinstance(st.targets[0], ast.Name) and isinstance(st.value, ast.Call)
              and ast.unparse(st.value.func).split('.')[-1] == 'Struct' and len(st.value.args) == 1 and isinstance(st.value.args[0], ast.Constant)
              and isinstance(st.value.args[0].value, str)):
            key = '%s.%s' % (c.name, st.targets[0].id)
            out[key] = None if key in out else st.value.args[0].value
  normalize.STRUCT_CONSTS.clear()
  normalize.STRUCT_CONSTS.update(dict((k, v) for k, v in out.items() if v is not None))


def _thin_wrappers(trees):
  """Package classes that only hold what they are given: bases (object), __init__ = one `self._f = p` per parameter, plain methods that never
  store an attribute of self.  -> {name: (rel, ClassDef, [fields in parameter order])}"""
  found, dup = {}, set()
  for rel, tree in trees.items():
    for c in tree.body:
      if not isinstance(c, ast.ClassDef) or c.decorator_list or c.keywords or any(ast.unparse(b_) != 'object' for b_ in c.bases):
        continue
      members = [m for m in c.body if not (isinstance(m, ast.Expr) and isinstance(m.value, ast.Constant))]
      if not members or not all(isinstance(m, ast.FunctionDef) and not m.decorator_list for m in members):
        continue
      init = [m for m in members if m.name == '__init__']
      if len(init) != 1:
        continue
      a = init[0].args
      if a.vararg or a.kwarg or a.kwonlyargs or a.defaults or a.posonlyargs or len(a.args) < 2:
        continue
      ps = [x.arg for x in a.args[1:]]
      fields = {}
      ok = True
      for st in init[0].body:
        if isinstance(st, ast.Expr) and isinstance(st.value, ast.Constant):
          continue
        if (isinstance(st, ast.Assign) and len(st.targets) == 1 and isinstance(st.targets[0], ast.Attribute) and isinstance(st.targets[0].value, ast.Name)
            and st.targets[0].value.id == a.args[0].arg and isinstance(st.value, ast.Name) and st.value.id in ps and st.value.id not in fields):
          fields[st.value.id] = st.targets[0].attr
        else:
          ok = False
      if not ok or sorted(fields) != sorted(ps):
        continue
      for m in members:
        if m.name == '__init__':
          continue
        if m.name.startswith('__') or not m.args.args or any(isinstance(n, ast.Attribute) and isinstance(n.ctx, (ast.Store, ast.Del)) and isinstance(n.value, ast.Name)
                                                             and n.value.id == m.args.args[0].arg for n in ast.walk(m)):
          ok = False
        if any(isinstance(n, (ast.Yield, ast.YieldFrom, ast.Await, ast.Global, ast.Nonlocal)) for n in ast.walk(m)):
          ok = False
      if not ok:
        continue
      if c.name in found:
        dup.add(c.name)
      found[c.name] = (rel, c, [fields[p_] for p_ in ps])
  for d in dup:
    found.pop(d, None)
  return found


def unwrap_thin_wrappers(trees, stats):
  """`w = W(buf)` ... `w.M(a)` in a function whose reference version does not know the package class W (a thin wrapper, see _thin_wrappers), w being a
  local that is only ever the receiver of W's methods (or handed on to a package function that uses its parameter in that way only):
  the call becomes `_W__M(buf, a)`, a new module-level function holding W.M's body with the wrapped value in place of `self._f`.  The ordinary
  helper inlining then puts the method bodies where they execute, so that the rules see the reads and writes themselves."""
  b = load_baseline()
  srcs = b.get('sources') or {}
  W = _thin_wrappers(trees)
  if not W or not srcs:
    return
  made = {}       # (rel, W, M) -> helper name

  def helper_for(rel, wname, mname, depth=0):
    key = (rel, wname, mname)
    if key in made:
      return made[key]
    wrel, wc, fields = W[wname]
    m = [x for x in wc.body if isinstance(x, ast.FunctionDef) and x.name == mname]
    if len(m) != 1 or depth > 3:
      return None
    m = copy.deepcopy(m[0])
    selfn = m.args.args[0].arg
    fparams = ['w_%s' % f.strip('_') for f in fields]
    taken = set(params_of(m)) | set(n for n, _ in local_defs_fp(m)[1])
    if set(fparams) & taken:
      return None
    name = '_%s__%s' % (wname.strip('_'), mname.strip('_'))
    made[key] = name          # (recursion between methods resolves to the same helper)
    fail = [False]

    class T(ast.NodeTransformer):
      def visit_Call(self, n):
        if isinstance(n.func, ast.Attribute) and isinstance(n.func.value, ast.Name) and n.func.value.id == selfn:
          h2 = helper_for(rel, wname, n.func.attr, depth + 1)
          if h2 is None:
            fail[0] = True
            return n
          n.args = [self.visit(a_) for a_ in n.args]
          for k in n.keywords:
            k.value = self.visit(k.value)
          return ast.copy_location(ast.Call(func=ast.Name(id=h2, ctx=ast.Load()), args=[ast.Name(id=fp, ctx=ast.Load()) for fp in fparams] + n.args,
                                            keywords=n.keywords), n)
        return self.generic_visit(n)

      def visit_Attribute(self, n):
        if isinstance(n.value, ast.Name) and n.value.id == selfn and n.attr in fields and isinstance(n.ctx, ast.Load):
          return ast.copy_location(ast.Name(id=fparams[fields.index(n.attr)], ctx=ast.Load()), n)
        return self.generic_visit(n)
    m.body = [T().visit(st) for st in m.body]
    if fail[0] or any(isinstance(n, ast.Name) and n.id == selfn for st in m.body for n in ast.walk(st)):
      made.pop(key, None)
      return None
    m.name = name
    m.args.args = [ast.arg(arg=fp) for fp in fparams] + m.args.args[1:]
    tree = trees[rel]
    k = max([i for i, st in enumerate(tree.body) if isinstance(st, (ast.Import, ast.ImportFrom))] + [-1]) + 1
    tree.body.insert(k, m)
    ast.fix_missing_locations(tree)
    return name

  def fsrc(rel, q):
    return srcs.get(rel + '::' + q)

  # candidate locals:  fn -> {w: (wname, stmt, block, [arg exprs])}
  def wrapper_locals(fn):
    out = {}
    for blk in _blocks_of(fn):
      for st in blk:
        if (isinstance(st, ast.Assign) and len(st.targets) == 1 and isinstance(st.targets[0], ast.Name) and isinstance(st.value, ast.Call)
            and isinstance(st.value.func, ast.Name) and st.value.func.id in W and not st.value.keywords
            and len(st.value.args) == len(W[st.value.func.id][2]) and all(isinstance(a_, ast.Name) for a_ in st.value.args)):
          w = st.targets[0].id
          stores = [n for n in ast.walk(fn) if isinstance(n, ast.Name) and n.id == w and isinstance(n.ctx, (ast.Store, ast.Del))]
          if len(stores) != 1 or w in params_of(fn):
            continue
          # the wrapped names keep their binding from here on
          if any(isinstance(n, ast.Name) and n.id in [a_.id for a_ in st.value.args] and isinstance(n.ctx, (ast.Store, ast.Del))
                 and (getattr(n, 'lineno', 0), getattr(n, 'col_offset', 0)) > (st.lineno, st.col_offset) for n in ast.walk(fn)):
            continue
          out[w] = (st.value.func.id, st, blk, st.value.args)
    return out

  funcs = []     # (rel, qualname, node, class node)
  for rel, tree in trees.items():
    for q, (node, cont, cls) in collect(tree).items():
      funcs.append((rel, q, node, cls))
  plans = []
  for rel, q, fn, cls in funcs:
    src = fsrc(rel, q)
    if src is None:
      continue
    wl = dict((w, v) for w, v in wrapper_locals(fn).items() if not re.search(r'\b%s\b' % re.escape(v[0]), src))
    if wl:
      plans.append((rel, q, fn, cls, wl))
  if not plans:
    return
  n_done = 0
  for rel, q, fn, cls, wl in plans:
    for w, (wname, wst, blk, wargs) in wl.items():
      methods = set(m.name for m in W[wname][1].body if isinstance(m, ast.FunctionDef) and m.name != '__init__')
      loads = [n for n in ast.walk(fn) if isinstance(n, ast.Name) and n.id == w and isinstance(n.ctx, ast.Load)]
      recv, passed = [], []
      ok = True
      parents = {}
      for p_ in ast.walk(fn):
        for ch in ast.iter_child_nodes(p_):
          parents[id(ch)] = p_
      for n in loads:
        par = parents.get(id(n))
        gp = parents.get(id(par)) if par is not None else None
        if isinstance(par, ast.Attribute) and par.attr in methods and isinstance(gp, ast.Call) and gp.func is par:
          recv.append((n, par, gp))
        elif isinstance(par, ast.Call) and any(a_ is n for a_ in par.args) and len(W[wname][2]) == 1:
          passed.append((n, par))
        else:
          ok = False
      if not ok:
        continue
      # handed-on wrappers: the callee's parameter must be used as a receiver of W's methods only
      callee_edits = []
      for n, call in passed:
        k = [i for i, a_ in enumerate(call.args) if a_ is n][0]
        f_ = call.func
        target = None
        if isinstance(f_, ast.Attribute) and isinstance(f_.value, ast.Name) and f_.value.id in ('self', 'cls') and cls is not None:
          cands = [m for m in cls.body if isinstance(m, ast.FunctionDef) and m.name == f_.attr]
          if len(cands) == 1:
            m = cands[0]
            off = 0 if any(ast.unparse(d) == 'staticmethod' for d in m.decorator_list) else 1
            target = (m, k + off)
        elif isinstance(f_, ast.Name):
          cands = [m for m in trees[rel].body if isinstance(m, ast.FunctionDef) and m.name == f_.id]
          if len(cands) == 1:
            target = (cands[0], k)
        if target is None or target[1] >= len(target[0].args.args) or any(isinstance(a_, ast.Starred) for a_ in call.args):
          ok = False
          break
        g, gi = target
        pname = g.args.args[gi].arg
        gl = [x for x in ast.walk(g) if isinstance(x, ast.Name) and x.id == pname]
        gpar = {}
        for p_ in ast.walk(g):
          for ch in ast.iter_child_nodes(p_):
            gpar[id(ch)] = p_
        for x in gl:
          par = gpar.get(id(x))
          gp = gpar.get(id(par)) if par is not None else None
          if not (isinstance(x.ctx, ast.Load) and isinstance(par, ast.Attribute) and par.attr in methods and isinstance(gp, ast.Call) and gp.func is par):
            ok = False
        # every other call of that name in the package hands over a wrapper of the same class too (else the callee cannot change)
        for rel2, q2, fn2, cls2 in funcs:
          for c2 in ast.walk(fn2):
            if isinstance(c2, ast.Call) and c2 is not call and ((isinstance(c2.func, ast.Attribute) and c2.func.attr == g.name) or (isinstance(c2.func, ast.Name) and c2.func.id == g.name)):
              a2 = c2.args[k] if k < len(c2.args) else None
              other = [pl[4] for pl in plans if pl[2] is fn2]
              if not (isinstance(a2, ast.Name) and other and a2.id in other[0] and other[0][a2.id][0] == wname):
                ok = False
        if not ok:
          break
        callee_edits.append((g, pname, gpar))
      if not ok:
        continue
      # rewrite
      good = True
      for n, par, call in recv:
        h = helper_for(rel, wname, par.attr)
        if h is None:
          good = False
          break
      if not good:
        continue
      for n, par, call in recv:
        h = helper_for(rel, wname, par.attr)
        call.func = ast.copy_location(ast.Name(id=h, ctx=ast.Load()), par)
        call.args = [copy.deepcopy(a_) for a_ in wargs] + call.args
      for n, call in passed:
        i = [j for j, a_ in enumerate(call.args) if a_ is n][0]
        call.args[i] = copy.deepcopy(wargs[0])
      for g, pname, gpar in callee_edits:
        grel = rel
        for x in [x for x in ast.walk(g) if isinstance(x, ast.Name) and x.id == pname and isinstance(x.ctx, ast.Load)]:
          par = gpar.get(id(x))
          gp = gpar.get(id(par)) if par is not None else None
          if isinstance(par, ast.Attribute) and isinstance(gp, ast.Call) and gp.func is par and par.attr in methods:
            h = helper_for(grel, wname, par.attr)
            if h is None:
              continue
            gp.func = ast.copy_location(ast.Name(id=h, ctx=ast.Load()), par)
            gp.args = [ast.Name(id=pname, ctx=ast.Load())] + gp.args
      blk.remove(wst)
      if not blk:
        blk.append(ast.Pass())
      n_done += 1
    ast.fix_missing_locations(trees[rel])
  if n_done:
    stats['wrappers_unwrapped'] = stats.get('wrappers_unwrapped', 0) + n_done


def _blocks_of(fn):
  out = []
  for n in ast.walk(fn):
    for fld in ('body', 'orelse', 'finalbody'):
      v = getattr(n, fld, None)
      if isinstance(v, list) and v and isinstance(v[0], ast.stmt):
        out.append(v)
    if isinstance(n, ast.Try):
      for h in n.handlers:
        out.append(h.body)
  return out


def _resolve_from(rel, imp, modname):
  """rel of the module an ImportFrom of module `rel` names, or None."""
  src = imp.module or ''
  if imp.level:
    basepkg = rel[:-3].replace('/', '.').split('.')
    if not rel.endswith('__init__.py'):
      basepkg = basepkg[:-1]
    if imp.level > 1:
      basepkg = basepkg[:-(imp.level - 1)]
    src = '.'.join(basepkg + ([imp.module] if imp.module else []))
  return modname.get(src), src


def _import_for(nm, atree, arel, src):
  """An import statement that binds `nm` the way module A (atree) does, usable from any module of the package; None if A does not bind it."""
  got = None
  for st in atree.body:
    if isinstance(st, ast.ImportFrom) and st.level == 0:
      for a in st.names:
        if (a.asname or a.name) == nm:
          got = ast.ImportFrom(module=st.module, names=[ast.alias(name=a.name, asname=a.asname)], level=0)
    elif isinstance(st, ast.ImportFrom) and st.level:
      for a in st.names:
        if (a.asname or a.name) == nm:
          ab = arel[:-3].replace('/', '.').split('.')
          if not arel.endswith('__init__.py'):
            ab = ab[:-1]
          if st.level > 1:
            ab = ab[:-(st.level - 1)]
          got = ast.ImportFrom(module='.'.join(ab + ([st.module] if st.module else [])), names=[ast.alias(name=a.name, asname=a.asname)], level=0)
    elif isinstance(st, ast.Import):
      for a in st.names:
        if (a.asname or a.name).split('.')[0] == nm:
          got = ast.Import(names=[ast.alias(name=a.name, asname=a.asname)])
    elif isinstance(st, ast.Try):
      for s2 in st.body:
        if isinstance(s2, ast.ImportFrom):
          for a in s2.names:
            if (a.asname or a.name) == nm:
              got = copy.deepcopy(st)       # the whole try/except import
  if got is None and any((isinstance(st, FN + (ast.ClassDef,)) and st.name == nm) or (isinstance(st, ast.Assign) and any(isinstance(t, ast.Name) and t.id == nm for t in st.targets))
                         for st in atree.body):
    got = ast.ImportFrom(module=src, names=[ast.alias(name=nm, asname=None)], level=0)
  return got


def _bound_names(tree):
  out = set()
  for st in tree.body:
    if isinstance(st, (ast.Import, ast.ImportFrom)):
      for a in st.names:
        out.add((a.asname or a.name).split('.')[0])
    elif isinstance(st, (FN + (ast.ClassDef,))):
      out.add(st.name)
    elif isinstance(st, ast.Assign):
      for t in st.targets:
        for x in ast.walk(t):
          if isinstance(x, ast.Name):
            out.add(x.id)
    elif isinstance(st, ast.Try):
      for s2 in ast.walk(st):
        if isinstance(s2, (ast.Import, ast.ImportFrom)):
          for a in s2.names:
            out.add((a.asname or a.name).split('.')[0])
  return out


def _binding_text(tree, rel, nm, modname):
  """A canonical description of what the top level of a module binds `nm` to (import origin or the text of the assigned value / definition)."""
  out = None
  for st in tree.body:
    if isinstance(st, ast.ImportFrom):
      for a in st.names:
        if (a.asname or a.name) == nm:
          arel, src = _resolve_from(rel, st, modname)
          out = 'from %s import %s' % (src, a.name)
    elif isinstance(st, ast.Import):
      for a in st.names:
        if (a.asname or a.name).split('.')[0] == nm:
          out = 'import %s' % a.name
    elif isinstance(st, FN + (ast.ClassDef,)) and st.name == nm:
      out = ast.unparse(st)
    elif isinstance(st, ast.Assign) and any(isinstance(t, ast.Name) and t.id == nm for t in st.targets):
      out = ast.unparse(st.value)
    elif isinstance(st, ast.Try):
      for s2 in ast.walk(st):
        if isinstance(s2, ast.ImportFrom) and any((a.asname or a.name) == nm for a in s2.names):
          out = ast.unparse(st)
  return out


def move_back_from_new_modules(trees, stats):
  """"Move to a new module and import it back" undone: a module the reference tree does not have, whose top-level classes / functions / simple
  constants are imported by name into a reference module, gives those definitions back to the importing module (at the place of the import,
  together with the imports they need).  Done for the definitions the reference module is known to have had (by name, also as a nested class or a
  static method -- the later steps put them back into their class) and for private helpers that came along."""
  b = load_baseline()
  inv = b.get('inventory', {})
  cinv = b.get('class_inventory', {})
  if not inv:
    return
  modname = {}
  for rel in trees:
    nm = rel[:-3].replace('/', '.')
    if nm.endswith('.__init__'):
      nm = nm[:-9]
    modname[nm] = rel
  base_rels = set(inv) | set(cinv) | set(k.split('::')[0] for k in (b.get('sources') or {}))
  new_rels = [r for r in trees if r not in base_rels and not r.endswith('__init__.py')]
  if not new_rels:
    return
  moved = 0
  for rel, tree in trees.items():
    if rel in new_rels:
      continue
    for imp in [x for x in list(tree.body) if isinstance(x, ast.ImportFrom)]:
      _, src0 = _resolve_from(rel, imp, modname)
      for al in list(imp.names):
        arel = modname.get((src0 + '.' if src0 else '') + al.name)
        if arel not in new_rels:
          continue
        local = al.asname or al.name
        attrs = [n for n in ast.walk(tree) if isinstance(n, ast.Attribute) and isinstance(n.value, ast.Name) and n.value.id == local]
        others = [n for n in ast.walk(tree) if isinstance(n, ast.Name) and n.id == local and not any(n is a_.value for a_ in attrs)]
        bound = _bound_names(tree)
        wanted = sorted(set(a_.attr for a_ in attrs))
        if others or any(w in bound for w in wanted):
          continue
        for a_ in attrs:
          _replace_node(tree, a_, ast.copy_location(ast.Name(id=a_.attr, ctx=a_.ctx), a_))
        k = tree.body.index(imp)
        tree.body.insert(k + 1, ast.ImportFrom(module=(src0 + '.' if src0 else '') + al.name, names=[ast.alias(name=w, asname=None) for w in wanted], level=0))
        imp.names.remove(al)
      if not imp.names:
        tree.body.remove(imp)
    ast.fix_missing_locations(tree)
  for _round in range(2):
    for rel, tree in trees.items():
      if rel in new_rels:
        continue
      for imp in [x for x in list(tree.body) if isinstance(x, ast.ImportFrom)]:
        arel, src = _resolve_from(rel, imp, modname)
        if arel not in new_rels:
          continue
        atree = trees[arel]
        k = tree.body.index(imp)
        for al in list(imp.names):
          if al.name == '*':
            continue
          defs = [x for x in atree.body if (isinstance(x, FN + (ast.ClassDef,)) and x.name == al.name)
                  or (isinstance(x, ast.Assign) and len(x.targets) == 1 and isinstance(x.targets[0], ast.Name) and x.targets[0].id == al.name)]
          if len(defs) != 1:
            continue
          d = defs[0]
          local = al.asname or al.name
          # what the definition needs: other definitions of the new module (moved along when private or wanted here too), imports of the new module
          closure, todo = [d], [d]
          names_a = dict((x.name, x) for x in atree.body if isinstance(x, FN + (ast.ClassDef,)))
          names_a.update((x.targets[0].id, x) for x in atree.body if isinstance(x, ast.Assign) and len(x.targets) == 1 and isinstance(x.targets[0], ast.Name))
          while todo:
            cur_ = todo.pop()
            for n in ast.walk(cur_):
              if isinstance(n, ast.Name) and n.id in names_a and not any(names_a[n.id] is c for c in closure):
                closure.append(names_a[n.id])
                todo.append(names_a[n.id])
          bound = _bound_names(tree)
          extra = []
          ok = True
          free = set(n.id for c in closure for n in ast.walk(c) if isinstance(n, ast.Name) and isinstance(n.ctx, ast.Load))
          bound_a = _bound_names(atree)
          for nm in sorted(free):
            if nm in names_a and not any(names_a[nm] is c_ for c_ in closure):
              continue
            if nm in names_a:
              continue
            if nm in bound and nm in bound_a:
              # bound in both modules: it must be the same thing, or the moved code would silently read another object here
              if _binding_text(tree, rel, nm, modname) != _binding_text(atree, arel, nm, modname):
                ok = False
              continue
            if nm in bound or nm in (dir(__builtins__) if not isinstance(__builtins__, dict) else __builtins__):
              continue
            got = _import_for(nm, atree, arel, src)
            if got is not None:
              extra.append(got)
          if not ok:
            stats.setdefault('moveback_refused', []).append((arel, al.name))
            continue
          ordered = [x for x in atree.body if any(x is c for c in closure)]
          new_nodes = []
          for c in ordered:
            cname = c.name if hasattr(c, 'name') else c.targets[0].id
            if cname in bound and cname != local:
              continue       # already here (moved by an earlier import)
            cp = copy.deepcopy(c)
            if c is d and local != al.name:
              if hasattr(cp, 'name'):
                cp.name = local
              else:
                cp.targets[0].id = local
            new_nodes.append(cp)
          tree.body[k + 1:k + 1] = extra + new_nodes
          imp.names.remove(al)
          moved += 1
        if not imp.names:
          tree.body.remove(imp)
      ast.fix_missing_locations(tree)
  if moved:
    stats['moved_back_from_new_modules'] = moved
    # a new module nobody imports any more is dropped from the analysis
    for arel in new_rels:
      used = False
      for rel, tree in trees.items():
        if rel == arel:
          continue
        for imp in ast.walk(tree):
          if isinstance(imp, ast.ImportFrom) and _resolve_from(rel, imp, modname)[0] == arel:
            used = True
          elif isinstance(imp, ast.Import) and any(modname.get(a.name) == arel for a in imp.names):
            used = True
      if not used:
        trees[arel].body = [x for x in trees[arel].body if isinstance(x, (ast.Import, ast.ImportFrom))] or [ast.Pass()]


def restore_class_aliases(trees, stats):
  """`Name = staticmethod(_f)` / `Name = _f` / `Name = _K` in a class body, where _f / _K is a module-level function / class that the reference
  module does not have at module level while the reference class has a member `Name`: the definition moves back into the class under that name
  (a static method again, or a nested class), and module-level uses of the bare name go through the class."""
  b = load_baseline()
  inv = b.get('inventory', {})
  cinv = b.get('class_inventory', {})
  n = 0
  for rel, tree in trees.items():
    known = set(inv.get(rel, []))
    kcls = set(cinv.get(rel, []))
    if not known:
      continue
    top = dict((x.name, x) for x in tree.body if isinstance(x, FN + (ast.ClassDef,)))
    for C in [x for x in tree.body if isinstance(x, ast.ClassDef)]:
      for st in list(C.body):
        if not (isinstance(st, ast.Assign) and len(st.targets) == 1 and isinstance(st.targets[0], ast.Name)):
          continue
        name = st.targets[0].id
        v = st.value
        static = isinstance(v, ast.Call) and isinstance(v.func, ast.Name) and v.func.id == 'staticmethod' and len(v.args) == 1 and not v.keywords
        ref = v.args[0] if static else v
        if isinstance(ref, ast.Name) and ref.id not in top:
          # the function lives in another module of the package (new there) and is imported by name: a copy becomes the class member
          modname_ = {}
          for r_ in trees:
            nm_ = r_[:-3].replace('/', '.')
            modname_[nm_[:-9] if nm_.endswith('.__init__') else nm_] = r_
          src_def = None
          for imp in [x for x in tree.body if isinstance(x, ast.ImportFrom)]:
            if any((a.asname or a.name) == ref.id for a in imp.names):
              arel, src = _resolve_from(rel, imp, modname_)
              if arel in trees:
                real = [a.name for a in imp.names if (a.asname or a.name) == ref.id][0]
                cands = [x for x in trees[arel].body if isinstance(x, FN) and x.name == real]
                if len(cands) == 1 and real not in set(inv.get(arel, [])) and not cands[0].decorator_list:
                  fr_ = set(x.id for x in ast.walk(cands[0]) if isinstance(x, ast.Name) and isinstance(x.ctx, ast.Load)) & _bound_names(trees[arel])
                  if all(_binding_text(trees[arel], arel, n_, modname_) == _binding_text(tree, rel, n_, modname_) for n_ in fr_ if n_ != real):
                    src_def = copy.deepcopy(cands[0])
          q = C.name + '.' + name
          if src_def is not None and isinstance(src_def, FN) and q in known:
            src_def.name = name
            src_def.decorator_list = [ast.Name(id='staticmethod', ctx=ast.Load())]
            C.body[C.body.index(st)] = src_def
            n += 1
          continue
        if not isinstance(ref, ast.Name) or ref.id not in top:
          continue
        d = top[ref.id]
        q = C.name + '.' + name
        if isinstance(d, ast.ClassDef):
          if q not in kcls or d.name in kcls:
            continue
        else:
          if q not in known or d.name in known:
            continue
        # other uses of the module-level name
        uses = [x for x in ast.walk(tree) if isinstance(x, ast.Name) and x.id == d.name and isinstance(x.ctx, ast.Load) and x is not ref]
        inside_C = set(id(x) for x in ast.walk(C))
        cp = d
        tree.body.remove(d)
        cp.name = name
        if isinstance(d, FN) and (static or True):
          if not any(ast.unparse(x) == 'staticmethod' for x in cp.decorator_list):
            cp.decorator_list = [ast.Name(id='staticmethod', ctx=ast.Load())] + cp.decorator_list
        C.body[C.body.index(st)] = cp
        for u in uses:
          _replace_node(tree, u, ast.copy_location(ast.Attribute(value=ast.Name(id=C.name, ctx=ast.Load()), attr=name, ctx=ast.Load()), u))
        top.pop(ref.id, None)
        n += 1
    ast.fix_missing_locations(tree)
  if n:
    stats['class_aliases_restored'] = n


def sink_extra_params(trees, stats):
  """A private function that takes one more (trailing) parameter than its reference version, where every call site in the module computes the
  argument by the same expression over the other arguments (`self._H(d, d.get(K, None))`): the computation goes back to the first statement of
  the callee (`p = d.get(K, None)` with the parameter in place of the argument) and the call sites lose the argument.  The expression is
  evaluated at the same moment either way (last argument, immediately before the body starts)."""
  b = load_baseline()
  inv = b.get('inventory', {})
  n = 0
  for rel, tree in trees.items():
    known = set(inv.get(rel, []))
    if not known:
      continue
    cur = collect(tree)
    for q, (f, cont, cls) in cur.items():
      if q not in known or not isinstance(f, ast.FunctionDef):
        continue
      bf = base_fn(b, rel, q)
      if bf is None:
        continue
      a, ba = f.args, bf.args
      if a.vararg or a.kwarg or a.kwonlyargs or ba.vararg or ba.kwarg or ba.kwonlyargs or a.defaults or len(a.args) != len(ba.args) + 1:
        continue
      static = any(ast.unparse(d) == 'staticmethod' for d in f.decorator_list)
      names = [x.arg for x in a.args]
      p_new = names[-1]
      if any(isinstance(x, ast.Name) and x.id == p_new and isinstance(x.ctx, (ast.Store, ast.Del)) for x in ast.walk(f)):
        continue
      fname = q.split('.')[-1]
      if not fname.startswith('_') or fname.startswith('__') and fname.endswith('__'):
        continue
      sites = []
      bad = False
      for g in ast.walk(tree):
        if isinstance(g, ast.Call):
          fn_ = g.func
          hit = (isinstance(fn_, ast.Attribute) and fn_.attr == fname) or (isinstance(fn_, ast.Name) and fn_.id == fname and cls is None)
          if hit:
            sites.append(g)
        elif isinstance(g, ast.Attribute) and g.attr == fname and not any(isinstance(c, ast.Call) and c.func is g for c in ast.walk(tree)):
          bad = True       # taken as a value somewhere
      if bad or not sites:
        continue
      off = 0 if (static or cls is None) else 1
      exprs = set()
      ok = True
      drops = []
      for c in sites:
        if c.keywords or any(isinstance(x, ast.Starred) for x in c.args) or len(c.args) != len(names) - off:
          ok = False
          break
        mapping = {}
        for pn, arg in zip(names[off:-1], c.args[:-1]):
          if isinstance(arg, ast.Name):
            mapping[arg.id] = pn
          elif isinstance(arg, ast.Attribute):
            mapping[ast.unparse(arg)] = pn
        e = copy.deepcopy(c.args[-1])
        if isinstance(e, ast.Name) and e.id not in mapping:
          # a local computed by the statement just before the call and used for nothing else
          tname = e.id
          pre = None
          for blk in _blocks_of(tree):
            for i_, st_ in enumerate(blk):
              if i_ > 0 and any(x is c for x in ast.walk(st_)):
                p0 = blk[i_ - 1]
                if (isinstance(p0, ast.Assign) and len(p0.targets) == 1 and isinstance(p0.targets[0], ast.Name) and p0.targets[0].id == tname):
                  pre = (blk, p0)
          uses_t = [x for x in ast.walk(tree) if isinstance(x, ast.Name) and x.id == tname]
          if pre is not None:
            encl = [g_ for g_ in ast.walk(tree) if isinstance(g_, FN) and any(x is c for x in ast.walk(g_))]
            inner_uses = [x for x in ast.walk(encl[-1]) if isinstance(x, ast.Name) and x.id == tname] if encl else uses_t
            if len(inner_uses) == 2:
              e = copy.deepcopy(pre[1].value)
              drops.append(pre)
        free = set(x.id for x in ast.walk(e) if isinstance(x, ast.Name))
        # names the callee cannot see
        mod_names = _bound_names(tree)
        if any(fr not in mapping and fr not in mod_names and fr not in ('self', 'cls', 'None', 'True', 'False') for fr in free):
          ok = False
          break
        if off == 0 and 'self' in free:
          ok = False
          break

        class R(ast.NodeTransformer):
          def visit_Name(self, x):
            return ast.copy_location(ast.Name(id=mapping[x.id], ctx=x.ctx), x) if x.id in mapping else x
        e = R().visit(e)
        exprs.add(ast.unparse(e))
        proto = e
      if not ok or len(exprs) != 1:
        continue
      # rewrite
      for c in sites:
        c.args = c.args[:-1]
      for blk, p0 in drops:
        if any(x is p0 for x in blk):
          blk.remove(p0)
      f.args.args = f.args.args[:-1]
      k = 1 if (f.body and isinstance(f.body[0], ast.Expr) and isinstance(f.body[0].value, ast.Constant) and isinstance(f.body[0].value.value, str)) else 0
      f.body.insert(k, ast.Assign(targets=[ast.Name(id=p_new, ctx=ast.Store())], value=proto, lineno=f.lineno, col_offset=f.col_offset))
      n += 1
    ast.fix_missing_locations(tree)
  if n:
    stats['params_sunk'] = n


def unwrap_lock_decorated_helpers(tree, rel, stats):
  """A NEW private method that carries a lock decorator of the module (`def D(fn): def w(self, ..): with <X>: return fn(self, ..)`) is the
  undecorated method with its whole body inside `with <X>:` -- the form the helper inlining can put back at the call site."""
  b = load_baseline()
  known = set(b.get('inventory', {}).get(rel, []))
  if not known:
    return
  decos = {}
  for d in tree.body:
    if isinstance(d, ast.FunctionDef) and len(d.args.args) == 1:
      inner = [n for n in _strip_doc(d.body) if isinstance(n, FN)]
      if len(inner) != 1:
        continue
      wb = _strip_doc(inner[0].body)
      if (len(wb) == 1 and isinstance(wb[0], ast.With) and len(wb[0].items) == 1 and wb[0].items[0].optional_vars is None and len(wb[0].body) == 1
          and isinstance(wb[0].body[0], ast.Return) and isinstance(wb[0].body[0].value, ast.Call) and isinstance(wb[0].body[0].value.func, ast.Name)
          and wb[0].body[0].value.func.id == d.args.args[0].arg and inner[0].args.args and inner[0].args.args[0].arg == 'self'):
        decos[d.name] = wb[0].items[0].context_expr
  if not decos:
    return
  n = 0
  for q, (f, cont, cls) in collect(tree).items():
    if q in known or cls is None or not isinstance(f, ast.FunctionDef) or len(f.decorator_list) != 1:
      continue
    dn = ast.unparse(f.decorator_list[0])
    if dn not in decos or not f.args.args or f.args.args[0].arg != 'self' or any(isinstance(x, (ast.Yield, ast.YieldFrom)) for x in ast.walk(f)):
      continue
    body = _strip_doc(f.body)
    f.decorator_list = []
    f.body = [ast.With(items=[ast.withitem(context_expr=copy.deepcopy(decos[dn]), optional_vars=None)], body=body, lineno=f.lineno, col_offset=f.col_offset)]
    n += 1
  if n:
    ast.fix_missing_locations(tree)
    stats['lock_helpers_unwrapped'] = stats.get('lock_helpers_unwrapped', 0) + n


def restore_package(trees, stats):
  """Before the per-module normalisation (on the raw trees)."""
  try:
    _note_signatures(trees)
  except Exception as e:
    stats['signature_error'] = repr(e)
  try:
    _note_stable_attrs(trees)
  except Exception as e:
    stats['stable_error'] = repr(e)
  try:
    move_back_from_new_modules(trees, stats)
    restore_class_aliases(trees, stats)
  except Exception as e:
    stats['moveback_error'] = repr(e)
  try:
    _note_struct_consts(trees)
    unwrap_thin_wrappers(trees, stats)
  except Exception as e:
    stats['unwrap_error'] = repr(e)
  try:
    import_cross_module_helpers(trees, stats)
  except Exception as e:
    stats['cross_module_error'] = repr(e)
  try:
    inline_new_properties(trees, stats)
  except Exception as e:
    stats['property_error'] = repr(e)
  try:
    demote_new_namedtuples(trees, stats)
  except Exception as e:
    stats['namedtuple_error'] = repr(e)
  try:
    split_constant_tuples(trees, stats)
    inline_new_name_tuples(trees, stats)
    for _ in range(2):       # a constant defined from another new constant
      inline_new_constants(trees, stats)
  except Exception as e:
    stats['constant_error'] = repr(e)
  try:
    restore_class_aliases(trees, stats)       # again: a function that only read new constants is self-contained now
  except Exception as e:
    stats['alias_error'] = repr(e)
  for rel, tree in trees.items():
    try:
      unwrap_lock_decorated_helpers(tree, rel, stats)
    except Exception as e:
      stats['lock_helper_error'] = repr(e)
  for rel, tree in trees.items():
    try:
      restore_lock_decorators(tree, rel, stats)
    except Exception as e:
      stats['decorator_error'] = repr(e)
  for rel, tree in trees.items():
    try:
      absorb_helper_classes(tree, rel, stats)
      absorb_state_classes(tree, rel, stats)
    except Exception as e:
      stats['absorb_error'] = repr(e)
  restore_renamed(trees, stats)
  try:
    sink_extra_params(trees, stats)
  except Exception as e:
    stats['sink_params_error'] = repr(e)
  try:
    push_down_new_base_methods(trees, stats)
  except Exception as e:
    stats['pushdown_error'] = repr(e)
  for rel, tree in trees.items():
    try:
      fuse_generators(tree, rel, stats)
    except Exception as e:
      stats['generator_error'] = repr(e)
    try:
      restore_closures(tree, rel, stats)
    except Exception as e:
      stats['closure_error'] = repr(e)
  try:
    _note_signatures(trees)       # again: names restored above are the ones the per-function steps look up
  except Exception as e:
    stats['signature_error'] = repr(e)


def outline_package(trees, stats):
  """After the per-module normalisation."""
  for rel, tree in trees.items():
    try:
      outline_missing(tree, rel, stats)
    except Exception as e:
      stats['outline_error'] = repr(e)
