"""Shared helpers: normalised conditions, guards on paths, yield table, AST queries."""
import ast

from .model import dotted, unparse, AnalysisError
from .paths import Paths, call_name, call_attr, fmt_path

NEG = {'<': '>=', '>=': '<', '>': '<=', '<=': '>', '==': '!=', '!=': '==', 'is': 'is not',
       'is not': 'is', 'in': 'not in', 'not in': 'in'}
SWAP = {'<': '>', '>': '<', '<=': '>=', '>=': '<=', '==': '==', '!=': '!='}
OPS = {ast.Lt: '<', ast.LtE: '<=', ast.Gt: '>', ast.GtE: '>=', ast.Eq: '==', ast.NotEq: '!=',
       ast.Is: 'is', ast.IsNot: 'is not', ast.In: 'in', ast.NotIn: 'not in'}


def U(node):
  return unparse(node)


def norm_fact(expr, truth, alias=None):
  """Normalise an atomic branch fact to (lhs, op, rhs) or ('truthy'|'falsy', text).
  alias: optional function mapping an expression text to a canonical text."""
  a = alias or (lambda s: s)
  if isinstance(expr, ast.Compare) and len(expr.ops) == 1:
    op = OPS.get(type(expr.ops[0]))
    l, r = a(U(expr.left)), a(U(expr.comparators[0]))
    if not truth:
      op = NEG[op]
    if op in SWAP and l > r:
      l, r, op = r, l, SWAP[op]
    return (l, op, r)
  # non-empty idioms: x, any(x), len(x) > 0, bool(x)
  if isinstance(expr, ast.Call) and isinstance(expr.func, ast.Name) and expr.func.id in ('any', 'bool') and len(expr.args) == 1:
    return ('truthy' if truth else 'falsy', a(U(expr.args[0])))
  return ('truthy' if truth else 'falsy', a(U(expr)))


def facts_before(events, idx, alias=None):
  out = []
  for e in events[:idx]:
    if e.kind == 'cond':
      out.append(norm_fact(e.node, e.info, alias))
  return out


def implies_cmp(fact, want):
  """Does normalised comparison `fact` imply `want` (same operand pair)?"""
  if fact == want:
    return True
  if len(fact) == 3 and len(want) == 3 and fact[0] == want[0] and fact[2] == want[2]:
    f, w = fact[1], want[1]
    if f == '<' and w in ('<=', '!='):
      return True
    if f == '>' and w in ('>=', '!='):
      return True
    if f == '==' and w in ('<=', '>='):
      return True
  return False


def cmp_fact(l, op, r):
  if op in SWAP and l > r:
    l, r, op = r, l, SWAP[op]
  return (l, op, r)


def has_fact(facts, want):
  return any(implies_cmp(f, want) for f in facts)


# --------------------------------------------------------------------- yields
YIELD_ATTRS = {'sleep', 'wait', 'join', 'joinall', 'killall'}
SOCKET_YIELD = {'open', 'read', 'readAll', 'write', 'recv_into', 'sendall', 'send', 'recv', 'connect'}


def is_socket_recv(call):
  d = call_name(call)
  if not d:
    return False
  parts = d.split('.')
  return len(parts) >= 2 and parts[-1] in SOCKET_YIELD and (
    parts[-2] in ('_socket', 'handle', 'socket', '_sock', 'sock') or 'socket' in parts[-2].lower())


def is_yield_call(call):
  """Table Y (DESIGN F3): calls that may switch greenlets."""
  a = call_attr(call)
  d = call_name(call) or ''
  if a is None:
    return False
  if d in ('gevent.killall', 'killall'):
    for k in call.keywords:
      if k.arg == 'block' and isinstance(k.value, ast.Constant) and k.value.value is False:
        return False
    return True      # gevent.killall blocks by default
  if d in ('gevent.sleep', 'gevent.joinall', 'gevent.wait', 'time.sleep'):
    return True
  if a == 'wait' and isinstance(call.func, ast.Attribute):
    return True
  if a == 'get' and isinstance(call.func, ast.Attribute) and not call.args:
    if U(call.func.value).endswith(('_tag_pool', '_pool')):
      return False  # TagPool.get() is plain bookkeeping
    return True     # AsyncResult.get() / Queue.get(); dict.get always has a key argument
  if a == 'join' and isinstance(call.func, ast.Attribute) and not isinstance(call.func.value, ast.Constant):
    return not call.args or d.endswith('greenlet.join')
  if a == 'kill' and isinstance(call.func, ast.Attribute):
    for k in call.keywords:
      if k.arg == 'block' and isinstance(k.value, ast.Constant) and k.value.value is False:
        return False
    return True      # Greenlet.kill() blocks by default
  if is_socket_recv(call):
    return True
  if a in ('put',) and isinstance(call.func, ast.Attribute):
    return False     # unbounded queues only (checked where it matters)
  return False


class Yields(object):
  """Transitive 'may yield' over the call graph (resolved + CHA edges inside `universe`)."""

  def __init__(self, prog, universe=None):
    self.prog = prog
    self.universe = universe   # predicate FuncInfo -> bool for CHA targets
    self._memo = {}

  def func_yields(self, f, _stack=None):
    key = id(f)
    if key in self._memo:
      return self._memo[key]
    _stack = _stack or set()
    if key in _stack:
      return None
    _stack = _stack | {key}
    res = None
    for n in walk_no_nested(f.node):
      if isinstance(n, ast.Call):
        if is_yield_call(n):
          res = (f, n)
          break
        r = self.call_yields(n, f, _stack)
        if r:
          res = r
          break
    self._memo[key] = res
    return res

  def call_yields(self, call, f, _stack=None):
    """None, or (function, call node) witness of a reachable yield."""
    if is_yield_call(call):
      return (f, call)
    targets, status = self.prog.resolve_call(call, f)
    if status == 'cha':
      # class-hierarchy analysis by name is only meaningful for the repo's own (CamelCase)
      # protocol methods; generic lower-case names (read, write, get, close ...) on untyped
      # receivers are library objects unless the receiver is a socket (handled by table Y)
      nm = call_attr(call) or ''
      if not nm.lstrip('_')[:1].isupper():
        targets = []
      elif self.universe is not None:
        targets = [t for t in targets if self.universe(t)]
    for t in targets:
      r = self.func_yields(t, _stack)
      if r:
        return r
    return None


def walk_no_nested(fnode):
  """ast.walk over a function body without descending into nested defs/lambdas/classes."""
  stack = list(fnode.body) if hasattr(fnode, 'body') and isinstance(fnode.body, list) else [fnode]
  while stack:
    n = stack.pop()
    yield n
    if isinstance(n, (ast.FunctionDef, ast.AsyncFunctionDef, ast.Lambda, ast.ClassDef)):
      continue     # a nested definition is a statement here; its body is other code
    for ch in ast.iter_child_nodes(n):
      stack.append(ch)


def calls_in(node, nested=False):
  it = ast.walk(node) if nested else walk_no_nested(node)
  return [n for n in it if isinstance(n, ast.Call)]


def attr_writes(fnode, attr, nested=True):
  """Statements in fnode that assign / aug-assign / delete <x>.<attr>."""
  out = []
  it = ast.walk(fnode) if nested else walk_no_nested(fnode)
  for n in it:
    tg = []
    if isinstance(n, ast.Assign):
      for t in n.targets:
        tg.extend(t.elts if isinstance(t, (ast.Tuple, ast.List)) else [t])
    elif isinstance(n, (ast.AugAssign, ast.AnnAssign)):
      tg = [n.target]
    elif isinstance(n, ast.Delete):
      tg = n.targets
    for t in tg:
      if isinstance(t, ast.Attribute) and t.attr == attr:
        out.append((n, t))
  return out


def method_calls_on_attr(fnode, attr, nested=True):
  """Calls of the form <x>.<attr>.<method>(...) -> list of (call, method name)."""
  out = []
  it = ast.walk(fnode) if nested else walk_no_nested(fnode)
  for n in it:
    if isinstance(n, ast.Call) and isinstance(n.func, ast.Attribute):
      v = n.func.value
      if isinstance(v, ast.Attribute) and v.attr == attr:
        out.append((n, n.func.attr))
  return out


def enum_paths(ctx, f, may_raise=None, unroll=2, body=None, max_paths=20000):
  P = Paths(may_raise, unroll=unroll, max_paths=max_paths)
  if body is not None:
    res = [(tuple(ev), ex) for ev, ex in P.block(body)]
    if P.prune:
      from .paths import feasible
      res = [p for p in res if feasible(p[0])]
  else:
    res = P.of_function(f.node)
  ctx.count_paths(len(res))
  ctx.stats['functions_analysed'].add(f.module.rel + ':' + f.qualname)
  return res


def idx_calls(events, pred):
  return [i for i, e in enumerate(events) if e.kind == 'call' and pred(e.node)]


def first_idx(events, pred, start=0):
  for i in range(start, len(events)):
    if pred(events[i]):
      return i
  return None


def path_text(events, limit=40):
  return fmt_path(events, limit)


def is_name(node, name):
  return isinstance(node, ast.Name) and node.id == name


def stmt_writes_attr(st, attr):
  """If statement st writes <x>.attr return (target, op, value) else None.
  op: '=' | '+=' | '-=' ..."""
  if isinstance(st, ast.Assign):
    for t in st.targets:
      ts = t.elts if isinstance(t, (ast.Tuple, ast.List)) else [t]
      for i, x in enumerate(ts):
        if isinstance(x, ast.Attribute) and x.attr == attr:
          v = st.value
          if isinstance(t, (ast.Tuple, ast.List)) and isinstance(v, (ast.Tuple, ast.List)) and len(v.elts) == len(ts):
            v = v.elts[i]
          return (x, '=', v)
  if isinstance(st, ast.AugAssign) and isinstance(st.target, ast.Attribute) and st.target.attr == attr:
    op = {ast.Add: '+=', ast.Sub: '-=', ast.Mult: '*=', ast.Pow: '**='}.get(type(st.op), '?=')
    return (st.target, op, st.value)
  return None


def require(cond, msg):
  if not cond:
    raise AnalysisError(msg)


def expand_events(ctx, f, events, depth=2, want=None, may_raise=None, cap=400):
  """E5 inlining: replace call events that resolve to exactly one repo function by that
  callee's own normal-exit paths (cartesian product, capped).  Returns a list of event
  lists.  Each inlined event keeps its own AST node; `Ev.info` of the inlined call event
  is set to ('inlined', callee FuncInfo)."""
  from .paths import Ev
  outs = [[]]
  for e in events:
    tails = None
    if e.kind == 'call' and depth > 0 and not e.info:
      targets, status = ctx.prog.resolve_call(e.node, f)
      if status == 'resolved' and len(targets) == 1 and (want is None or want(targets[0])):
        t = targets[0]
        if t.node is not f.node and not t.is_abstract:
          sub = [(ev, ex) for ev, ex in enum_paths(ctx, t, may_raise) if ex[0] == 'ret']
          tails = []
          for ev, ex in sub:
            for x in expand_events(ctx, t, ev, depth - 1, want, may_raise, cap):
              tails.append([Ev('call', e.node, ('inlined', t), e.maybe, e.multi)] + x)
    if tails is None:
      for o in outs:
        o.append(e)
    else:
      outs = [o + t for o in outs for t in tails][:cap]
  return outs


# ------------------------------------------------------- idiom closure of facts
_MIRROR = {ast.Lt: ast.Gt, ast.Gt: ast.Lt, ast.LtE: ast.GtE, ast.GtE: ast.LtE, ast.Eq: ast.Eq, ast.NotEq: ast.NotEq}
_NEGATE = {ast.Lt: ast.GtE, ast.GtE: ast.Lt, ast.Gt: ast.LtE, ast.LtE: ast.Gt, ast.Eq: ast.NotEq, ast.NotEq: ast.Eq,
           ast.Is: ast.IsNot, ast.IsNot: ast.Is, ast.In: ast.NotIn, ast.NotIn: ast.In}
_OPTXT = {ast.Lt: '<', ast.Gt: '>', ast.LtE: '<=', ast.GtE: '>=', ast.Eq: '==', ast.NotEq: '!=', ast.Is: 'is', ast.IsNot: 'isnot',
          ast.In: 'in', ast.NotIn: 'notin'}


def _t(node):
  return unparse(node).replace(' ', '')


STATE_PROPERTIES = {'is_closed': 'Closed'}     # x.is_closed is `x.state == ChannelState.Closed` (scales/sink.py ClientMessageSink; re-confirmed on every run by sa/main.py)


def equiv_facts(node, truth):
  """All equivalent spellings (text without spaces, truth) of an atomic branch fact, per the
  idiom table of DESIGN.md 4.2: negated / mirrored comparisons, `not x`, is-None vs
  truthiness of optionals, non-emptiness idioms (x, any(x), len(x) > 0, len(x) != 0,
  len(x) >= 1, bool(x)), size == 0 vs falsiness."""
  out = set()

  def add(text, t):
    out.add((text, t))
    if text.startswith('not') and not text[3:4].isalnum() or text.startswith('not('):
      pass
    out.add(('not' + text, not t))
    out.add(('not(' + text + ')', not t))

  def truthy(x, t):
    """x is truthy (t) / falsy (not t)"""
    add(x, t)
    add(x + 'isNone', not t)
    add(x + 'isnotNone', t)
    for s in ('any(%s)', 'bool(%s)', 'len(%s)>0', 'len(%s)!=0', 'len(%s)>=1'):
      add(s % x, t)
    add('len(%s)==0' % x, not t)
    add('0<len(%s)' % x, t)
  while isinstance(node, ast.UnaryOp) and isinstance(node.op, ast.Not):
    node, truth = node.operand, not truth
  if isinstance(node, ast.Compare) and len(node.ops) == 1:
    op = type(node.ops[0])
    l, r = node.left, node.comparators[0]
    lt, rt = _t(l), _t(r)
    add(lt + _OPTXT[op] + rt, truth)
    if op in (ast.Eq, ast.NotEq) and lt.endswith('.state') and rt.startswith('ChannelState.'):
      for pn, stn in STATE_PROPERTIES.items():
        if rt == 'ChannelState.' + stn:
          add(lt[:-len('.state')] + '.' + pn, truth if op is ast.Eq else not truth)
    if op in _NEGATE:
      add(lt + _OPTXT[_NEGATE[op]] + rt, not truth)
    if op in _MIRROR:
      add(rt + _OPTXT[_MIRROR[op]] + lt, truth)
      add(rt + _OPTXT[_NEGATE[_MIRROR[op]]] + lt, not truth)
    # is None / is not None  <-> truthiness of an optional
    if op in (ast.Is, ast.IsNot) and rt == 'None':
      isnone = truth if op is ast.Is else not truth
      add(lt, not isnone)
    # non-emptiness / zero tests
    if isinstance(l, ast.Call) and isinstance(l.func, ast.Name) and l.func.id == 'len' and len(l.args) == 1 and isinstance(r, ast.Constant):
      x = _t(l.args[0])
      v = r.value
      ne = None
      if (op, v) in ((ast.Gt, 0), (ast.NotEq, 0), (ast.GtE, 1)):
        ne = truth
      elif (op, v) in ((ast.Eq, 0), (ast.LtE, 0), (ast.Lt, 1)):
        ne = not truth
      if ne is not None:
        truthy(x, ne)
    if isinstance(r, ast.Constant) and r.value == 0 and not isinstance(r.value, bool) and op in (ast.Eq, ast.NotEq):
      zero = truth if op is ast.Eq else not truth
      add(lt, not zero)
    return out
  if isinstance(node, ast.Call) and isinstance(node.func, ast.Name) and node.func.id in ('any', 'bool') and len(node.args) == 1 \
      and not isinstance(node.args[0], (ast.GeneratorExp, ast.ListComp)):
    truthy(_t(node.args[0]), truth)
    return out
  if isinstance(node, (ast.Name, ast.Attribute, ast.Subscript)):
    truthy(_t(node), truth)
    # the sink base class spells one state test as a property: x.is_closed <=> x.state == ChannelState.Closed
    if isinstance(node, ast.Attribute) and node.attr in STATE_PROPERTIES:
      base = _t(node.value)
      st = STATE_PROPERTIES[node.attr]
      add('%s.state==ChannelState.%s' % (base, st), truth)
      add('%s.state!=ChannelState.%s' % (base, st), not truth)
      add('ChannelState.%s==%s.state' % (st, base), truth)
    return out
  add(_t(node), truth)
  return out


import copy as _copy


class _SubstNames(ast.NodeTransformer):
  def __init__(self, env):
    self.env = env

  def visit_Name(self, node):
    if isinstance(node.ctx, ast.Load) and node.id in self.env:
      return ast.copy_location(_copy.deepcopy(self.env[node.id]), node)
    return node

  def visit_Lambda(self, node):
    return node


def sym_resolve(expr, env):
  """Substitute local names by the expressions last assigned to them on the path."""
  if not env or expr is None:
    return expr
  try:
    return _SubstNames(env).visit(_copy.deepcopy(expr))
  except RecursionError:
    return expr


def _size(node):
  return sum(1 for _ in ast.walk(node))


def sym_env(events, upto=None):
  """name -> expression (earlier aliases substituted) for the simple `name = expr`
  assignments seen on a path prefix; any other write to a name forgets it."""
  from .paths import written_names
  env = {}
  for e in (events if upto is None else events[:upto]):
    if e.kind == 'stmt' and isinstance(e.node, ast.Assign) and len(e.node.targets) == 1 and isinstance(e.node.targets[0], ast.Name):
      v = sym_resolve(e.node.value, env)
      nm = e.node.targets[0].id
      if _size(v) <= 80:
        env[nm] = v
      else:
        env.pop(nm, None)
    elif e.kind == 'stmt' and isinstance(e.node, ast.Assign) and len(e.node.targets) == 1 and isinstance(e.node.targets[0], ast.Tuple) \
        and isinstance(e.node.value, ast.Tuple) and len(e.node.value.elts) == len(e.node.targets[0].elts):
      vals = [sym_resolve(v, env) for v in e.node.value.elts]
      for t, v in zip(e.node.targets[0].elts, vals):
        if isinstance(t, ast.Name):
          if _size(v) <= 80:
            env[t.id] = v
          else:
            env.pop(t.id, None)
    elif e.kind == 'stmt' and isinstance(e.node, ast.AugAssign) and isinstance(e.node.target, ast.Name):
      nm = e.node.target.id
      old = env.get(nm, ast.Name(id=nm, ctx=ast.Load()))
      v = ast.BinOp(left=_copy.deepcopy(old), op=e.node.op, right=sym_resolve(e.node.value, env))
      ast.copy_location(v, e.node)
      ast.fix_missing_locations(v)
      if _size(v) <= 80:
        env[nm] = v
      else:
        env.pop(nm, None)
    elif e.kind in ('stmt', 'for_iter', 'with_enter'):
      for w in written_names(e.node):
        env.pop(w, None)
    elif e.kind == 'handler' and e.node.name:
      env.pop(e.node.name, None)
  return env


def _alias_facts(node, truth, env, out, depth=0):
  """Facts implied by an atomic condition after substituting boolean aliases."""
  out.extend(equiv_facts(node, truth))
  if depth > 3 or not env:
    return
  names = [n.id for n in ast.walk(node) if isinstance(n, ast.Name) and n.id in env]
  if not names:
    return
  sub = sym_resolve(node, env)
  while isinstance(sub, ast.UnaryOp) and isinstance(sub.op, ast.Not):
    sub, truth = sub.operand, not truth
  if isinstance(sub, ast.BoolOp):
    if isinstance(sub.op, ast.And) and truth:
      for v in sub.values:
        _alias_facts(v, True, {}, out, depth + 1)
    elif isinstance(sub.op, ast.Or) and not truth:
      for v in sub.values:
        _alias_facts(v, False, {}, out, depth + 1)
    return
  if isinstance(sub, ast.Constant):
    return
  out.extend(equiv_facts(sub, truth))


def FACTS(events):
  """Idiom-closed set of (text, truth) facts of the branch conditions on a path prefix,
  including the facts implied through local aliases (flag = <test>; if flag: ... and
  x = <expr>; if x > 0: ...): every condition is also emitted with its local names
  substituted by the expressions assigned to them on the path."""
  from .paths import written_names
  out = []
  env = {}
  for e in events:
    if e.kind == 'cond':
      _alias_facts(e.node, e.info, env, out)
    elif e.kind == 'stmt' and isinstance(e.node, ast.Assign) and len(e.node.targets) == 1 and isinstance(e.node.targets[0], ast.Name):
      v = sym_resolve(e.node.value, env)
      nm = e.node.targets[0].id
      if _size(v) <= 60 and not isinstance(v, ast.Constant) and not any(isinstance(x, ast.Name) and x.id == nm for x in ast.walk(v)):
        env[nm] = v
      else:
        env.pop(nm, None)
    elif e.kind in ('stmt', 'for_iter', 'with_enter'):
      for w in written_names(e.node):
        env.pop(w, None)
  return out


def FACTS_I(events, offset=0):
  from .paths import written_names
  out = []
  env = {}
  for i, e in enumerate(events):
    if e.kind == 'cond':
      tmp = []
      _alias_facts(e.node, e.info, env, tmp)
      for c, t in tmp:
        out.append((c, t, i + offset))
    elif e.kind == 'stmt' and isinstance(e.node, ast.Assign) and len(e.node.targets) == 1 and isinstance(e.node.targets[0], ast.Name):
      v = sym_resolve(e.node.value, env)
      nm = e.node.targets[0].id
      if _size(v) <= 60 and not isinstance(v, ast.Constant) and not any(isinstance(x, ast.Name) and x.id == nm for x in ast.walk(v)):
        env[nm] = v
      else:
        env.pop(nm, None)
    elif e.kind in ('stmt', 'for_iter', 'with_enter'):
      for w in written_names(e.node):
        env.pop(w, None)
  return out


def POS(facts):
  """Only the spellings that do not start with `not` (every fact has one): for rules that
  match facts by prefix/suffix/substring instead of exact membership."""
  return [f for f in facts if not f[0].startswith('not')]


def RAW(events):
  """Literal (text, truth) of the branch conditions, for rules that interpret the node."""
  return [(unparse(e.node).replace(' ', ''), e.info) for e in events if e.kind == 'cond']


def RAW_I(events):
  return [(unparse(e.node).replace(' ', ''), e.info, i) for i, e in enumerate(events) if e.kind == 'cond']



def has_fact(events, upto, text, truth=True):
  """Does the path prefix establish `text` (python expression) with the given truth, either
  literally or after substituting local aliases on both sides?"""
  fs = FACTS(events if upto is None else events[:upto])
  t = text.replace(' ', '')
  if (t, truth) in fs:
    return True
  try:
    node = ast.parse(text, mode='eval').body
  except SyntaxError:
    return False
  res = sym_resolve(node, sym_env(events, upto))
  for c, tr in equiv_facts(res, truth):
    if (c, tr) in fs:
      return True
  return False


def resolved_text(events, upto, expr):
  return unparse(sym_resolve(expr, sym_env(events, upto))).replace(' ', '')


def late_bound_loopvars(fnode):
  """Functions/lambdas defined inside a loop that read a variable the loop rebinds on every iteration (the target of a `for`, a name assigned in
  the body of a `while`/`for`) as a free variable, not through a parameter default: called later, every one of them sees the value of the LAST
  iteration.  A nested function that is only ever called directly inside the loop body (never stored, passed or spawned) is not reported.
  -> [(nested def node, variable name)]"""
  out = []
  for lp in ast.walk(fnode):
    if not isinstance(lp, (ast.For, ast.While)):
      continue
    lvars = set(n.id for n in ast.walk(lp.target) if isinstance(n, ast.Name)) if isinstance(lp, ast.For) else set()
    nested = []
    stack = list(lp.body)
    while stack:
      n = stack.pop()
      if isinstance(n, (ast.FunctionDef, ast.AsyncFunctionDef, ast.Lambda)):
        nested.append(n)
        continue
      if isinstance(n, ast.Name) and isinstance(n.ctx, ast.Store):
        lvars.add(n.id)
      stack.extend(ast.iter_child_nodes(n))
    for n in nested:
      params = set(a.arg for a in n.args.posonlyargs + n.args.args + n.args.kwonlyargs)
      if n.args.vararg:
        params.add(n.args.vararg.arg)
      if n.args.kwarg:
        params.add(n.args.kwarg.arg)
      body = n.body if isinstance(n.body, list) else [n.body]
      assigned = set(x.id for b in body for x in ast.walk(b) if isinstance(x, ast.Name) and isinstance(x.ctx, ast.Store))
      used = set(x.id for b in body for x in ast.walk(b) if isinstance(x, ast.Name) and isinstance(x.ctx, ast.Load))
      hits = sorted((used & lvars) - params - assigned - ({n.name} if hasattr(n, 'name') else set()))
      if not hits:
        continue
      if hasattr(n, 'name'):
        refs = [x for st in lp.body for x in ast.walk(st) if isinstance(x, ast.Name) and x.id == n.name and isinstance(x.ctx, ast.Load)]
        calls = set()       # direct calls in the loop body (a call inside another closure is deferred too)
        stk = list(lp.body)
        while stk:
          c = stk.pop()
          if isinstance(c, (ast.FunctionDef, ast.AsyncFunctionDef, ast.Lambda, ast.ClassDef)):
            continue
          if isinstance(c, ast.Call):
            calls.add(id(c.func))
          stk.extend(ast.iter_child_nodes(c))
        if refs and all(id(x) in calls for x in refs):
          continue       # only called on the spot
      for v in hits:
        out.append((n, v))
  return out


# ------------------------------------------------------------------ counters
def counter_run(ev, attr, upto=None):
  """Symbolic run of a path over N = entry value of the integer attribute `attr` (text, e.g. 'self._ref_count').
  Values are (a, b) = a*N + b.  Returns (writes, facts):
    writes: [(event index, (a, b))]   every value stored into attr
    facts:  [(event index, rel, k)]   what the branch conditions say about N, normalised to "N rel k" (rel in == != < <= > >=)"""
  env = {}
  cur = [(1, 0)]
  writes, facts = [], []

  def val(e):
    if isinstance(e, ast.Constant) and isinstance(e.value, int) and not isinstance(e.value, bool):
      return (0, e.value)
    if isinstance(e, ast.Name):
      return env.get(e.id)
    if isinstance(e, ast.Attribute) and unparse(e) == attr:
      return cur[0]
    if isinstance(e, ast.BinOp) and isinstance(e.op, (ast.Add, ast.Sub)):
      l, r = val(e.left), val(e.right)
      if l is None or r is None:
        return None
      s = 1 if isinstance(e.op, ast.Add) else -1
      return (l[0] + s * r[0], l[1] + s * r[1])
    return None
  NEG = {'==': '!=', '!=': '==', '<': '>=', '<=': '>', '>': '<=', '>=': '<'}
  FLIP = {'==': '==', '!=': '!=', '<': '>', '<=': '>=', '>': '<', '>=': '<='}
  OPS = {ast.Eq: '==', ast.NotEq: '!=', ast.Lt: '<', ast.LtE: '<=', ast.Gt: '>', ast.GtE: '>='}

  def fact(node, truth, i):
    if isinstance(node, ast.UnaryOp) and isinstance(node.op, ast.Not):
      return fact(node.operand, not truth, i)
    rel = k = None
    if isinstance(node, ast.Compare) and len(node.ops) == 1 and type(node.ops[0]) in OPS:
      l, r = val(node.left), val(node.comparators[0])
      if l is None or r is None:
        return
      a, b = l[0] - r[0], l[1] - r[1]
      rel = OPS[type(node.ops[0])]
      if a == -1:
        a, b, rel = 1, -b, FLIP[rel]
      if a != 1:
        return
      k = -b
    else:
      v = val(node)
      if v is None or v[0] != 1:
        return
      rel, k = '!=', -v[1]
    if not truth:
      rel = NEG[rel]
    facts.append((i, rel, k))
  for i, e in enumerate(ev if upto is None else ev[:upto]):
    if e.kind == 'cond':
      fact(e.node, bool(e.info), i)
    if e.kind != 'stmt':
      continue
    st = e.node
    if isinstance(st, ast.Assign) and len(st.targets) == 1:
      t = st.targets[0]
      if isinstance(t, ast.Tuple) and isinstance(st.value, ast.Tuple) and len(t.elts) == len(st.value.elts):
        vals = [val(x) for x in st.value.elts]
        for tt, vv in zip(t.elts, vals):
          if isinstance(tt, ast.Name):
            env[tt.id] = vv
          elif unparse(tt) == attr:
            cur[0] = vv
            writes.append((i, vv))
        continue
      v = val(st.value)
      if isinstance(t, ast.Name):
        env[t.id] = v
      elif unparse(t) == attr:
        cur[0] = v
        writes.append((i, v))
    elif isinstance(st, ast.AugAssign) and isinstance(st.op, (ast.Add, ast.Sub)):
      tl = ast.Name(id=st.target.id, ctx=ast.Load()) if isinstance(st.target, ast.Name) else st.target
      v = val(ast.BinOp(left=tl, op=st.op, right=st.value))
      if isinstance(st.target, ast.Name):
        env[st.target.id] = v
      elif unparse(st.target) == attr:
        cur[0] = v
        writes.append((i, v))
  return writes, facts


def counter_entails(facts, rel, k):
  """Do the facts "N r c" (all true, integer N) entail "N rel k"?"""
  lo, hi, neq = -10 ** 9, 10 ** 9, set()
  for _, r, c in facts:
    if r == '==':
      lo, hi = max(lo, c), min(hi, c)
    elif r == '!=':
      neq.add(c)
    elif r == '<':
      hi = min(hi, c - 1)
    elif r == '<=':
      hi = min(hi, c)
    elif r == '>':
      lo = max(lo, c + 1)
    elif r == '>=':
      lo = max(lo, c)
  while lo in neq:
    lo += 1
  while hi in neq:
    hi -= 1
  if lo > hi:
    return True          # infeasible path: anything holds
  if rel == '==':
    return lo == hi == k
  if rel == '!=':
    return k < lo or k > hi or k in neq
  if rel == '<':
    return hi < k
  if rel == '<=':
    return hi <= k
  if rel == '>':
    return lo > k
  if rel == '>=':
    return lo >= k
  return False


def callback_bodies(prog, f, expr, depth=0):
  """The code a callback expression eventually runs, through the spellings a callback can take: a lambda, the name of a nested
  function, a bound method `self.M`, and `functools.partial(<any of these>, bound...)`.
  -> [(node whose text/body to inspect, [bound argument nodes])]"""
  if depth > 3 or expr is None:
    return []
  if isinstance(expr, ast.Lambda):
    out = [(expr.body, [])]
    # a lambda that only forwards: lambda x: target(...)
    if isinstance(expr.body, ast.Call):
      for n, b in callback_bodies(prog, f, expr.body.func, depth + 1):
        out.append((n, list(expr.body.args) + b))
    return out
  if isinstance(expr, ast.Call) and (unparse(expr.func).split('.')[-1] == 'partial') and expr.args:
    out = []
    for n, b in callback_bodies(prog, f, expr.args[0], depth + 1):
      bound = list(expr.args[1:]) + [k.value for k in expr.keywords] + b
      if isinstance(n, (ast.FunctionDef, ast.AsyncFunctionDef)) and not expr.keywords and not any(isinstance(a, ast.Starred) for a in expr.args):
        # the function with its leading parameters replaced by the bound arguments (self of a bound method skipped)
        ps = [a.arg for a in n.args.posonlyargs + n.args.args]
        if isinstance(expr.args[0], ast.Attribute) and ps[:1] == ['self']:
          ps = ps[1:]
        stored = set(x.id for x in ast.walk(n) if isinstance(x, ast.Name) and isinstance(x.ctx, ast.Store))
        mp = dict((pn, a) for pn, a in zip(ps, expr.args[1:]) if pn not in stored)
        if mp:
          n2 = _copy.deepcopy(n)
          n2.body = [_SubstNames(mp).visit(st) for st in n2.body]
          out.append((n2, bound))
          continue
      out.append((n, bound))
    return out
  if isinstance(expr, ast.Name):
    g = f
    while g is not None:
      if expr.id in getattr(g, 'nested', {}):
        nd = g.nested[expr.id].node
        out = [(nd, [])]
        # a nested function that only forwards (`def cb(evt): target(); return None`) also stands for its target
        body = [s_ for s_ in nd.body if not (isinstance(s_, ast.Expr) and isinstance(s_.value, ast.Constant))
                and not (isinstance(s_, ast.Return) and (s_.value is None or (isinstance(s_.value, ast.Constant) and s_.value.value is None)))]
        if len(body) == 1 and isinstance(body[0], (ast.Expr, ast.Return)) and isinstance(body[0].value, ast.Call):
          for n2, b2 in callback_bodies(prog, g.nested[expr.id], body[0].value.func, depth + 1):
            out.append((n2, list(body[0].value.args) + b2))
        return out
      g = getattr(g, 'parent', None)
    mod = getattr(f, 'module', None)
    if mod is not None and expr.id in getattr(mod, 'functions', {}):
      return [(mod.functions[expr.id].node, [])]       # a module-level function of the same module
    return []
  if isinstance(expr, ast.Attribute) and isinstance(expr.value, ast.Name) and expr.value.id in ('self', 'cls') and getattr(f, 'cls', None) is not None:
    m = prog.lookup_method(f.cls, expr.attr)
    if m is not None:
      return [(m.node, [])]
  return []


def inline_expr_methods(prog, f, node, depth=0):
  """Copy of an expression in which calls `self.M()` (no arguments) of methods whose whole body is `return <expr>` are replaced by that
  expression (a predicate such as `is_blocking()` stands for the comparison it returns)."""
  if getattr(f, 'cls', None) is None or depth > 2:
    return node

  class T(ast.NodeTransformer):
    def visit_Call(self, n):
      self.generic_visit(n)
      if isinstance(n.func, ast.Attribute) and isinstance(n.func.value, ast.Name) and n.func.value.id == 'self' and not n.args and not n.keywords:
        m = prog.lookup_method(f.cls, n.func.attr)
        if m is not None and len(m.params) == 1:
          body = [s_ for s_ in m.node.body if not (isinstance(s_, ast.Expr) and isinstance(s_.value, ast.Constant))]
          if len(body) == 1 and isinstance(body[0], ast.Return) and body[0].value is not None:
            return ast.copy_location(inline_expr_methods(prog, m, _copy.deepcopy(body[0].value), depth + 1), n)
      return n
  return T().visit(_copy.deepcopy(node))


# ---------------------------------------------------------------- per-instance state
_MUTATORS = ('add', 'append', 'appendleft', 'extend', 'update', 'pop', 'popleft', 'popitem', 'discard', 'remove', 'clear', 'insert', 'setdefault', 'sort', 'reverse',
             'difference_update', 'intersection_update', 'symmetric_difference_update', 'put')
_MUTABLE_CTORS = ('set', 'dict', 'list', 'deque', 'defaultdict', 'OrderedDict', 'bytearray', 'Queue', 'Counter')


def instance_state(ctx, rule, rels):
  """Per-instance state stays per instance: an object created in the class body (`_free = set()`) exists once for all instances; a method that
  changes it in place through `self` (`self._free.add(t)`, `self._members[k] = v`) changes it for every connection / balancer / server set of
  the process.  Accepted: the class rebinds the attribute on the instance in its constructor, or the attribute is only ever reached through the
  class (a registry meant to be shared).  One obligation per class of the anchored modules."""
  prog = ctx.prog
  why = ('the state the property speaks about (tags in use, members, waiters, loads) is kept per connection / balancer / server set; a mutable object '
         'defined in the class body is shared by all instances of the process')
  n = 0
  for rel in rels:
    m = prog.modules.get(rel)
    if m is None:
      continue
    def classes(tbl):
      for c in tbl.values():
        yield c
        for x in classes(c.nested):
          yield x
    for c in classes(m.classes):
      n += 1
      shared = {}
      for st in c.node.body:
        if isinstance(st, ast.Assign) and len(st.targets) == 1 and isinstance(st.targets[0], ast.Name):
          v = st.value
          if isinstance(v, (ast.Dict, ast.List, ast.Set, ast.ListComp, ast.DictComp, ast.SetComp)) or \
             (isinstance(v, ast.Call) and unparse(v.func).split('.')[-1] in _MUTABLE_CTORS):
            shared[st.targets[0].id] = st
      if not shared:
        ctx.ob(rule, '%s:%d' % (rel, c.node.lineno), 'class %s keeps no mutable object in its body' % c.qualname, True, '', why, nontrivial=False)
        continue
      # methods of the class and of its subclasses in the package
      fam = [k for k in prog.all_classes if c in prog.mro(k)] if hasattr(prog, 'all_classes') else [c]
      bad = []
      for k in fam:
        rebound = set()
        for mth in k.methods.values():
          if mth.name == '__init__':
            for x in ast.walk(mth.node):
              if isinstance(x, ast.Attribute) and isinstance(x.ctx, ast.Store) and isinstance(x.value, ast.Name) and x.value.id == 'self':
                rebound.add(x.attr)
        for kk in prog.mro(k):
          if kk is not k and '__init__' in kk.methods and '__init__' not in k.methods:
            for x in ast.walk(kk.methods['__init__'].node):
              if isinstance(x, ast.Attribute) and isinstance(x.ctx, ast.Store) and isinstance(x.value, ast.Name) and x.value.id == 'self':
                rebound.add(x.attr)
            break
        for mth in k.methods.values():
          for x in ast.walk(mth.node):
            tgt = None
            if isinstance(x, ast.Call) and isinstance(x.func, ast.Attribute) and x.func.attr in _MUTATORS:
              tgt = x.func.value
            elif isinstance(x, ast.Subscript) and isinstance(x.ctx, (ast.Store, ast.Del)):
              tgt = x.value
            elif isinstance(x, ast.AugAssign) and isinstance(x.target, ast.Attribute):
              tgt = x.target if isinstance(shared.get(x.target.attr, None) and shared[x.target.attr].value, (ast.List, ast.Set)) else None
            if isinstance(tgt, ast.Attribute) and isinstance(tgt.value, ast.Name) and tgt.value.id == 'self' and tgt.attr in shared and tgt.attr not in rebound:
              bad.append('%s.%s changes self.%s in place' % (k.qualname, mth.name, tgt.attr))
      ctx.ob(rule, '%s:%d' % (rel, c.node.lineno), 'class %s: objects created in the class body are not changed in place through self' % c.qualname, not bad,
             '; '.join(sorted(set(bad))[:4]) + ' -- created once in the class body (%s) and never rebound per instance in __init__: every instance shares it' % ', '.join(
               sorted(set(b.split('self.')[1].split(' ')[0] for b in bad))), why)
  ctx.floor(rule, 'classes of the anchored modules', n, 1)


def late_binding(ctx, rule, rels):
  """No closure created in a loop of the anchored modules reads the loop's variables late (generic rule, see late_bound_loopvars)."""
  prog = ctx.prog
  why = ('a callback, greenlet body or timeout handler created per request / per frame / per member inside a loop must act on ITS request: a closure that reads the loop '
         'variable when it runs acts on whatever the loop holds by then (the next frame, the last member)')
  n = 0
  for f in prog.all_funcs:
    if f.module.rel not in rels or f.parent is not None:
      continue
    if not any(isinstance(x, (ast.For, ast.While)) for x in ast.walk(f.node)):
      continue
    n += 1
    lb = late_bound_loopvars(f.node)
    ctx.ob(rule, f, 'closures created in a loop bind what they need when they are created', not lb,
           '; '.join('%s reads loop variable %r when it is called' % (getattr(d, 'name', 'lambda'), v) for d, v in lb[:3]), why, nontrivial=bool(lb))


_SYNC_NAMES = ('RLock', 'Lock', 'Semaphore', 'BoundedSemaphore', 'Condition', 'Event', 'Queue', 'JoinableQueue', 'LifoQueue', 'PriorityQueue', 'Timeout',
               'socket', 'create_connection', 'socketpair')      # (a stdlib socket blocks the whole hub in recv/send: no timer fires any more)


def greenlet_primitives(ctx, rule, rels):
  """Locks, events and queues built in the anchored modules are gevent's: all greenlets share one OS thread, so a `threading.RLock` is re-entrant for
  every greenlet (it serialises nothing across a yield), and a `threading.Event.wait` / `queue.Queue.get` blocks the hub itself."""
  prog = ctx.prog
  why = ('mutual exclusion and waiting between greenlets need cooperative primitives: a thread lock is owned by the (single) OS thread, so a second greenlet '
         'acquires it at once while the first is parked inside the critical section')
  for rel in rels:
    m = prog.modules.get(rel)
    if m is None:
      continue
    origins = {}
    for st in ast.walk(m.tree):
      if isinstance(st, ast.ImportFrom):
        for a in st.names:
          origins.setdefault(a.asname or a.name, set()).add(('.' * st.level) + (st.module or ''))
      elif isinstance(st, ast.Import):
        for a in st.names:
          origins.setdefault((a.asname or a.name).split('.')[0], set()).add(a.name)
    seen = set()
    for c in ast.walk(m.tree):
      if not isinstance(c, ast.Call):
        continue
      f = c.func
      if isinstance(f, ast.Name) and f.id in _SYNC_NAMES:
        src = origins.get(f.id)
        if src is None or (f.id, tuple(sorted(src))) in seen:
          continue        # defined locally / already judged
        seen.add((f.id, tuple(sorted(src))))
        ok = all(o.startswith('gevent') for o in src)
        ctx.ob(rule, '%s:%d' % (rel, c.lineno), '%s() is a gevent primitive' % f.id, ok, '%s is imported from %s' % (f.id, sorted(src)), why)
      elif isinstance(f, ast.Attribute) and f.attr in _SYNC_NAMES:
        root = f.value
        while isinstance(root, ast.Attribute):
          root = root.value
        if isinstance(root, ast.Name) and root.id in origins and root.id != 'self':
          src = origins[root.id]
          key = (unparse(f), tuple(sorted(src)))
          if key in seen:
            continue
          seen.add(key)
          ok = all(o.startswith('gevent') for o in src)
          ctx.ob(rule, '%s:%d' % (rel, c.lineno), '%s() is a gevent primitive' % unparse(f), ok, '%s comes from %s' % (unparse(f), sorted(src)), why)


def init_before_spawn(ctx, rule, rels):
  """A constructor that starts a greenlet on a method of the object under construction has already stored every attribute that method reads:
  the greenlet runs as soon as the constructor (or anything it calls) yields, and an attribute stored only later does not exist yet."""
  prog = ctx.prog
  why = ('the worker greenlet may be scheduled at the first yield after the spawn (a ZooKeeper round trip, a wait): it dies with AttributeError on a field the constructor '
         'sets later, and everything that depends on the worker (notifications, timers) silently stops')
  for rel in rels:
    m = prog.modules.get(rel)
    if m is None:
      continue
    for c in [k for k in prog.all_classes if k.module is m]:
      init = c.methods.get('__init__')
      if init is None:
        continue
      order = {}

      def dfs(n):
        order[id(n)] = len(order)
        for ch in ast.iter_child_nodes(n):
          dfs(ch)
      dfs(init.node)
      spawns = [x for x in walk_no_nested(init.node) if isinstance(x, ast.Call) and (call_attr(x) or '') in ('spawn', 'spawn_later', 'Greenlet', 'spawn_raw') and x.args]
      for sp in spawns:
        tgt = sp.args[1] if call_attr(sp) == 'spawn_later' and len(sp.args) > 1 else sp.args[0]
        if not (isinstance(tgt, ast.Attribute) and isinstance(tgt.value, ast.Name) and tgt.value.id == 'self'):
          continue
        worker = prog.lookup_method(c, tgt.attr)
        if worker is None:
          continue
        reads = set()
        seen = set()
        todo = [worker]
        while todo and len(seen) < 6:
          w = todo.pop()
          if w.qualname in seen:
            continue
          seen.add(w.qualname)
          for x in ast.walk(w.node):
            if isinstance(x, ast.Attribute) and isinstance(x.value, ast.Name) and x.value.id == 'self' and isinstance(x.ctx, ast.Load):
              reads.add(x.attr)
              m2 = prog.lookup_method(c, x.attr)
              if m2 is not None:
                todo.append(m2)
        first_store = {}
        for x in ast.walk(init.node):
          if isinstance(x, ast.Attribute) and isinstance(x.value, ast.Name) and x.value.id == 'self' and isinstance(x.ctx, ast.Store):
            first_store[x.attr] = min(first_store.get(x.attr, 10 ** 9), order[id(x)])
        late = sorted(a for a in reads if a in first_store and first_store[a] > order[id(sp)])
        ctx.ob(rule, init, 'everything the greenlet started on self.%s reads is stored before it is started' % tgt.attr, not late,
               'attributes read by %s but first stored after the spawn: %s' % (tgt.attr, late), why)


def one_shot_iterators(ctx, rule, rels):
  """A local bound to a one-shot iterator (the result of a generator function, a generator expression, map/filter/zip) is consumed at most once on
  every path (generic rule): the second loop over it sees nothing."""
  from .types import Inference, _own
  prog = ctx.prog
  inf = Inference(prog)
  why = ('a generator can be iterated once: a second `for`, comprehension or call that walks it again gets no elements, so whatever the second pass does '
         '(deliver the join notifications, send the frames, fill the table) silently does not happen')

  def is_x(e, x):
    return isinstance(e, ast.Name) and e.id == x

  def uses(node, x):
    """consumptions of x inside one expression/simple statement (nested functions excluded, comprehensions included)."""
    n = 0
    for c in [node] + list(_own(node)):
      if isinstance(c, ast.comprehension) and is_x(c.iter, x):
        n += 1
      elif isinstance(c, ast.Call):
        n += sum(1 for a in c.args if is_x(a, x) or (isinstance(a, ast.Starred) and is_x(a.value, x)))
        n += sum(1 for k in c.keywords if is_x(k.value, x))
      elif isinstance(c, ast.Compare) and any(isinstance(o, (ast.In, ast.NotIn)) for o in c.ops) and any(is_x(r, x) for r in c.comparators):
        n += 1
      elif isinstance(c, (ast.Return, ast.Yield, ast.YieldFrom)) and c.value is not None and is_x(c.value, x):
        n += 1
      elif isinstance(c, ast.Assign) and is_x(c.value, x):
        n += 1       # (an alias: whoever holds it walks the same iterator)
    return n

  def count(stmts, x):
    tot = 0
    for st in stmts:
      if isinstance(st, (ast.FunctionDef, ast.AsyncFunctionDef, ast.ClassDef)):
        continue
      if isinstance(st, ast.If):
        tot += uses(st.test, x) + max(count(st.body, x), count(st.orelse, x))
      elif isinstance(st, (ast.For, ast.AsyncFor)):
        tot += (1 if is_x(st.iter, x) else uses(st.iter, x)) + 2 * count(st.body, x) + count(st.orelse, x)
      elif isinstance(st, ast.While):
        tot += 2 * (uses(st.test, x) + count(st.body, x)) + count(st.orelse, x)
      elif isinstance(st, (ast.With, ast.AsyncWith)):
        tot += sum(uses(i.context_expr, x) for i in st.items) + count(st.body, x)
      elif isinstance(st, ast.Try):
        tot += count(st.body, x) + max([count(h.body, x) for h in st.handlers] or [0]) + count(st.orelse, x) + count(st.finalbody, x)
      else:
        tot += uses(st, x)
    return tot

  for f in prog.all_funcs:
    if f.module.rel not in rels:
      continue
    defs = {}
    for n in _own(f.node):
      if isinstance(n, ast.Assign) and len(n.targets) == 1 and isinstance(n.targets[0], ast.Name):
        defs.setdefault(n.targets[0].id, []).append(n.value)
    for x, vals in sorted(defs.items()):
      if len(vals) != 1:
        continue
      w = inf.one_shot(f, vals[0])
      if not w:
        continue
      k = count(f.node.body, x)
      ctx.ob(rule, f, 'one-shot iterator %s is consumed at most once' % x, k <= 1,
             '%s holds an iterator that can be walked once (%s) and is consumed %d times on a path' % (x, w, k), why, nontrivial=k > 1)


def truthiness_protocol(ctx, rule, rels):
  """A truth test (`if m`, `filter(None, ..)`, `x or y`) on a value that may be an instance of a package class means "is there an object": the class
  must not define __len__ / __bool__, which would make some real instances falsy (generic rule)."""
  from .types import Inference, _own
  prog = ctx.prog
  inf = Inference(prog)
  why = ('`if m` / `filter(None, ...)` / `m or default` on an object of a package class asks whether there IS an object (None = vanished node, missing '
         'entry); once the class defines __len__ or __bool__ an existing but "empty" instance is dropped as if it were missing')
  n = 0

  def falsy_dunder(c):
    for k in prog.mro(c):
      for nm in ('__bool__', '__len__', '__nonzero__'):
        if nm in k.methods:
          return '%s.%s' % (k.name, nm)
    return None

  def tested(e, out):
    if isinstance(e, ast.BoolOp):
      for v in e.values:
        tested(v, out)
    elif isinstance(e, ast.UnaryOp) and isinstance(e.op, ast.Not):
      tested(e.operand, out)
    elif isinstance(e, (ast.Name, ast.Call, ast.Attribute)):
      out.append(e)

  for f in prog.all_funcs:
    if f.module.rel not in rels:
      continue
    env = None
    sites = []       # (expression, 'val' | 'elem')
    for nd in _own(f.node):
      if isinstance(nd, (ast.If, ast.While, ast.IfExp)):
        o = []
        tested(nd.test, o)
        sites += [(e, 'val') for e in o]
      elif isinstance(nd, ast.comprehension):
        for i in nd.ifs:
          o = []
          tested(i, o)
          sites += [(e, 'val') for e in o]
      elif isinstance(nd, ast.BoolOp):
        o = []
        for v in nd.values[:-1]:
          tested(v, o)
        sites += [(e, 'val') for e in o]
      elif isinstance(nd, ast.Call) and isinstance(nd.func, ast.Name) and nd.func.id == 'filter' and len(nd.args) == 2 \
          and isinstance(nd.args[0], ast.Constant) and nd.args[0].value is None:
        sites.append((nd.args[1], 'elem'))
    if not sites:
      continue
    env = inf.env_of(f)
    seen = set()
    for e, kind in sites:
      cs = (inf.expr_classes if kind == 'val' else inf.elem_classes)(f, e, env)
      for c in sorted(cs, key=lambda c_: c_.qualname):
        key = (unparse(e), c.qualname)
        if key in seen:
          continue
        seen.add(key)
        n += 1
        d = falsy_dunder(c)
        ctx.ob(rule, f, 'truth test of %s (a %s) means "is there one"' % (unparse(e), c.name), d is None,
               '%s may be a %s, and %s makes some instances falsy' % (unparse(e), c.name, d), why, nontrivial=d is not None)
  return n


def timeouts_caught(ctx, rule, rels):
  """A gevent.Timeout armed in a function is caught by that function (generic rule).  gevent.Timeout derives from BaseException: the fault paths of the
  transports (`except Exception: self._Fault(ex)`) do not see it, so a timer that fires with no `except gevent.Timeout` around kills the greenlet with the
  connection neither closed nor reported, and whoever waits on it waits for ever."""
  prog = ctx.prog
  why = ('gevent.Timeout is a BaseException: it passes every `except Exception` on its way up; the function that arms it must catch it itself (or arm it silent, '
         'Timeout(t, False)), otherwise the fault is neither delivered to the caller nor turned into a closed channel')
  for f in prog.all_funcs:
    if f.module.rel not in rels:
      continue
    parents = {}
    for p in ast.walk(f.node):
      for ch in ast.iter_child_nodes(p):
        parents[id(ch)] = p
    for c in ast.walk(f.node):
      if not isinstance(c, ast.Call):
        continue
      t = unparse(c.func).replace(' ', '')
      armed = t in ('gevent.Timeout.start_new', 'Timeout.start_new', 'gevent.with_timeout', 'with_timeout')
      if t in ('gevent.Timeout', 'Timeout'):
        par = parents.get(id(c))
        armed = isinstance(par, ast.withitem) or (isinstance(par, ast.Attribute) and par.attr == 'start')
        if len(c.args) >= 2 and isinstance(c.args[1], ast.Constant) and c.args[1].value is False:
          armed = False      # silent timeout: the with block just ends
        if any(k.arg == 'exception' and isinstance(k.value, ast.Constant) and k.value.value is False for k in c.keywords):
          armed = False
      if not armed:
        continue
      caught = _timeout_caught(c, f.node, parents)
      # a factory that hands the armed timer to its caller (`return gevent.Timeout.start_new(t)`): the obligation is the callers'
      par = parents.get(id(c))
      names = [unparse(t_) for t_ in par.targets] if isinstance(par, ast.Assign) else []
      handed = isinstance(par, ast.Return) or any(isinstance(r_, ast.Return) and r_.value is not None and unparse(r_.value) in names for r_ in ast.walk(f.node))
      if not caught and handed:
        sites = []
        for g in prog.all_funcs:
          gp = None
          for c2 in ast.walk(g.node):
            if isinstance(c2, ast.Call) and unparse(c2.func).split('.')[-1] == f.name and g is not f:
              if gp is None:
                gp = {}
                for p_ in ast.walk(g.node):
                  for ch in ast.iter_child_nodes(p_):
                    gp[id(ch)] = p_
              sites.append((g, _timeout_caught(c2, g.node, gp)))
        for g, okc in sites:
          ctx.ob(rule, g, 'a gevent.Timeout armed through %s is caught by the caller' % f.name, okc, '%s arms a timeout for its caller %s, which has no enclosing `except gevent.Timeout`' % (f.name, g.qualname), why)
        continue       # (a factory nobody calls arms nothing)
      ctx.ob(rule, f, 'a gevent.Timeout armed here is caught here', caught, '%s is armed with no enclosing `except gevent.Timeout`' % unparse(c)[:80], why)


def _timeout_caught(c, fnode, parents):
  n = c
  while id(n) in parents:
    p = parents[id(n)]
    if isinstance(p, ast.Try) and any(n is s_ for s_ in p.body):
      for h in p.handlers:
        ht = unparse(h.type) if h.type is not None else ''
        if h.type is None or 'Timeout' in ht or 'BaseException' in ht:
          return True
    if isinstance(p, (ast.FunctionDef, ast.AsyncFunctionDef, ast.Lambda)) and p is not fnode:
      return False
    n = p
  return False
