"""Shared helpers: normalised conditions, guards on paths, yield table, AST queries."""
import ast

from .model import dotted, unparse, AnalysisError
from .paths import Paths, call_name, call_attr, fmt_path

NEG = {'<': '>=', '>=': '<', '>': '<=', '<=': '>', '==': '!=', '!=': '==', 'is': 'is not',
       'is not': 'is', 'in': 'not in', 'not in': 'in'}
SWAP = {'<': '>', '>': '<', '<=': '>=', '>=': '<=', '==': '==', '!=': '!='}
OPS = {ast.Lt: '<', ast.LtE: '<=', ast.Gt: '>', ast.GtE: '>=', ast.Eq: '==', ast.NotEq: '!=',
       ast.Is: 'is', ast.IsNot: 'is not', ast.In: 'in', ast.NotIn: 'not in'}


def U(node):
  return unparse(node)


def norm_fact(expr, truth, alias=None):
  """Normalise an atomic branch fact to (lhs, op, rhs) or ('truthy'|'falsy', text).
  alias: optional function mapping an expression text to a canonical text."""
  a = alias or (lambda s: s)
  if isinstance(expr, ast.Compare) and len(expr.ops) == 1:
    op = OPS.get(type(expr.ops[0]))
    l, r = a(U(expr.left)), a(U(expr.comparators[0]))
    if not truth:
      op = NEG[op]
    if op in SWAP and l > r:
      l, r, op = r, l, SWAP[op]
    return (l, op, r)
  # non-empty idioms: x, any(x), len(x) > 0, bool(x)
  if isinstance(expr, ast.Call) and isinstance(expr.func, ast.Name) and expr.func.id in ('any', 'bool') and len(expr.args) == 1:
    return ('truthy' if truth else 'falsy', a(U(expr.args[0])))
  return ('truthy' if truth else 'falsy', a(U(expr)))


def facts_before(events, idx, alias=None):
  out = []
  for e in events[:idx]:
    if e.kind == 'cond':
      out.append(norm_fact(e.node, e.info, alias))
  return out


def implies_cmp(fact, want):
  """Does normalised comparison `fact` imply `want` (same operand pair)?"""
  if fact == want:
    return True
  if len(fact) == 3 and len(want) == 3 and fact[0] == want[0] and fact[2] == want[2]:
    f, w = fact[1], want[1]
    if f == '<' and w in ('<=', '!='):
      return True
    if f == '>' and w in ('>=', '!='):
      return True
    if f == '==' and w in ('<=', '>='):
      return True
  return False


def cmp_fact(l, op, r):
  if op in SWAP and l > r:
    l, r, op = r, l, SWAP[op]
  return (l, op, r)


def has_fact(facts, want):
  return any(implies_cmp(f, want) for f in facts)


# --------------------------------------------------------------------- yields
YIELD_ATTRS = {'sleep', 'wait', 'join', 'joinall', 'killall'}
SOCKET_YIELD = {'open', 'read', 'readAll', 'write', 'recv_into', 'sendall', 'send', 'recv', 'connect'}


def is_socket_recv(call):
  d = call_name(call)
  if not d:
    return False
  parts = d.split('.')
  return len(parts) >= 2 and parts[-1] in SOCKET_YIELD and (
    parts[-2] in ('_socket', 'handle', 'socket', '_sock', 'sock') or 'socket' in parts[-2].lower())


def is_yield_call(call):
  """Table Y (DESIGN F3): calls that may switch greenlets."""
  a = call_attr(call)
  d = call_name(call) or ''
  if a is None:
    return False
  if d in ('gevent.killall', 'killall'):
    for k in call.keywords:
      if k.arg == 'block' and isinstance(k.value, ast.Constant) and k.value.value is False:
        return False
    return True      # gevent.killall blocks by default
  if d in ('gevent.sleep', 'gevent.joinall', 'gevent.wait', 'time.sleep'):
    return True
  if a == 'wait' and isinstance(call.func, ast.Attribute):
    return True
  if a == 'get' and isinstance(call.func, ast.Attribute) and not call.args:
    if U(call.func.value).endswith(('_tag_pool', '_pool')):
      return False  # TagPool.get() is plain bookkeeping
    return True     # AsyncResult.get() / Queue.get(); dict.get always has a key argument
  if a == 'join' and isinstance(call.func, ast.Attribute) and not isinstance(call.func.value, ast.Constant):
    return not call.args or d.endswith('greenlet.join')
  if a == 'kill' and isinstance(call.func, ast.Attribute):
    for k in call.keywords:
      if k.arg == 'block' and isinstance(k.value, ast.Constant) and k.value.value is False:
        return False
    return True      # Greenlet.kill() blocks by default
  if is_socket_recv(call):
    return True
  if a in ('put',) and isinstance(call.func, ast.Attribute):
    return False     # unbounded queues only (checked where it matters)
  return False


class Yields(object):
  """Transitive 'may yield' over the call graph (resolved + CHA edges inside `universe`)."""

  def __init__(self, prog, universe=None):
    self.prog = prog
    self.universe = universe   # predicate FuncInfo -> bool for CHA targets
    self._memo = {}

  def func_yields(self, f, _stack=None):
    key = id(f)
    if key in self._memo:
      return self._memo[key]
    _stack = _stack or set()
    if key in _stack:
      return None
    _stack = _stack | {key}
    res = None
    for n in walk_no_nested(f.node):
      if isinstance(n, ast.Call):
        if is_yield_call(n):
          res = (f, n)
          break
        r = self.call_yields(n, f, _stack)
        if r:
          res = r
          break
    self._memo[key] = res
    return res

  def call_yields(self, call, f, _stack=None):
    """None, or (function, call node) witness of a reachable yield."""
    if is_yield_call(call):
      return (f, call)
    targets, status = self.prog.resolve_call(call, f)
    if status == 'cha':
      # class-hierarchy analysis by name is only meaningful for the repo's own (CamelCase)
      # protocol methods; generic lower-case names (read, write, get, close ...) on untyped
      # receivers are library objects unless the receiver is a socket (handled by table Y)
      nm = call_attr(call) or ''
      if not nm.lstrip('_')[:1].isupper():
        targets = []
      elif self.universe is not None:
        targets = [t for t in targets if self.universe(t)]
    for t in targets:
      r = self.func_yields(t, _stack)
      if r:
        return r
    return None


def walk_no_nested(fnode):
  """ast.walk over a function body without descending into nested defs/lambdas/classes."""
  stack = list(fnode.body) if hasattr(fnode, 'body') and isinstance(fnode.body, list) else [fnode]
  while stack:
    n = stack.pop()
    yield n
    if isinstance(n, (ast.FunctionDef, ast.AsyncFunctionDef, ast.Lambda, ast.ClassDef)):
      continue     # a nested definition is a statement here; its body is other code
    for ch in ast.iter_child_nodes(n):
      stack.append(ch)


def calls_in(node, nested=False):
  it = ast.walk(node) if nested else walk_no_nested(node)
  return [n for n in it if isinstance(n, ast.Call)]


def attr_writes(fnode, attr, nested=True):
  """Statements in fnode that assign / aug-assign / delete <x>.<attr>."""
  out = []
  it = ast.walk(fnode) if nested else walk_no_nested(fnode)
  for n in it:
    tg = []
    if isinstance(n, ast.Assign):
      for t in n.targets:
        tg.extend(t.elts if isinstance(t, (ast.Tuple, ast.List)) else [t])
    elif isinstance(n, (ast.AugAssign, ast.AnnAssign)):
      tg = [n.target]
    elif isinstance(n, ast.Delete):
      tg = n.targets
    for t in tg:
      if isinstance(t, ast.Attribute) and t.attr == attr:
        out.append((n, t))
  return out


def method_calls_on_attr(fnode, attr, nested=True):
  """Calls of the form <x>.<attr>.<method>(...) -> list of (call, method name)."""
  out = []
  it = ast.walk(fnode) if nested else walk_no_nested(fnode)
  for n in it:
    if isinstance(n, ast.Call) and isinstance(n.func, ast.Attribute):
      v = n.func.value
      if isinstance(v, ast.Attribute) and v.attr == attr:
        out.append((n, n.func.attr))
  return out


def enum_paths(ctx, f, may_raise=None, unroll=2, body=None, max_paths=20000):
  P = Paths(may_raise, unroll=unroll, max_paths=max_paths)
  if body is not None:
    res = [(tuple(ev), ex) for ev, ex in P.block(body)]
  else:
    res = P.of_function(f.node)
  ctx.count_paths(len(res))
  ctx.stats['functions_analysed'].add(f.module.rel + ':' + f.qualname)
  return res


def idx_calls(events, pred):
  return [i for i, e in enumerate(events) if e.kind == 'call' and pred(e.node)]


def first_idx(events, pred, start=0):
  for i in range(start, len(events)):
    if pred(events[i]):
      return i
  return None


def path_text(events, limit=40):
  return fmt_path(events, limit)


def is_name(node, name):
  return isinstance(node, ast.Name) and node.id == name


def stmt_writes_attr(st, attr):
  """If statement st writes <x>.attr return (target, op, value) else None.
  op: '=' | '+=' | '-=' ..."""
  if isinstance(st, ast.Assign):
    for t in st.targets:
      ts = t.elts if isinstance(t, (ast.Tuple, ast.List)) else [t]
      for i, x in enumerate(ts):
        if isinstance(x, ast.Attribute) and x.attr == attr:
          v = st.value
          if isinstance(t, (ast.Tuple, ast.List)) and isinstance(v, (ast.Tuple, ast.List)) and len(v.elts) == len(ts):
            v = v.elts[i]
          return (x, '=', v)
  if isinstance(st, ast.AugAssign) and isinstance(st.target, ast.Attribute) and st.target.attr == attr:
    op = {ast.Add: '+=', ast.Sub: '-=', ast.Mult: '*=', ast.Pow: '**='}.get(type(st.op), '?=')
    return (st.target, op, st.value)
  return None


def require(cond, msg):
  if not cond:
    raise AnalysisError(msg)


def expand_events(ctx, f, events, depth=2, want=None, may_raise=None, cap=400):
  """E5 inlining: replace call events that resolve to exactly one repo function by that
  callee's own normal-exit paths (cartesian product, capped).  Returns a list of event
  lists.  Each inlined event keeps its own AST node; `Ev.info` of the inlined call event
  is set to ('inlined', callee FuncInfo)."""
  from .paths import Ev
  outs = [[]]
  for e in events:
    tails = None
    if e.kind == 'call' and depth > 0 and not e.info:
      targets, status = ctx.prog.resolve_call(e.node, f)
      if status == 'resolved' and len(targets) == 1 and (want is None or want(targets[0])):
        t = targets[0]
        if t.node is not f.node and not t.is_abstract:
          sub = [(ev, ex) for ev, ex in enum_paths(ctx, t, may_raise) if ex[0] == 'ret']
          tails = []
          for ev, ex in sub:
            for x in expand_events(ctx, t, ev, depth - 1, want, may_raise, cap):
              tails.append([Ev('call', e.node, ('inlined', t), e.maybe, e.multi)] + x)
    if tails is None:
      for o in outs:
        o.append(e)
    else:
      outs = [o + t for o in outs for t in tails][:cap]
  return outs
