"""F2: abstract events of the sink protocol on paths, with inlining of helpers and
classification of deferred code (HANDOFF / DEFER_UP / COMPLETER)."""
import ast

from .model import AnalysisError, dotted, unparse, FuncInfo
from .paths import Paths, call_attr, call_name, PathExplosion
from .util import U, is_socket_recv, is_yield_call, equiv_facts, FACTS

UPS = {'AsyncProcessResponse', 'AsyncProcessResponseMessage', 'AsyncProcessResponseStream'}
REGISTER = {'rawlink', 'ContinueWith', 'Subscribe', 'Schedule', 'SafeLink', 'link', 'Map'}
RAISERS = {'SerializeThriftCall', 'DeserializeThriftCall', 'Marshal', 'Unmarshal', 'SerializeMessage',
           'DeserializeMessage', '_Get', 'ReadHeader', 'unpack'}
SOCKET_RAISE = {'open', 'write', 'read', 'readAll', 'recv_into', 'sendall', 'send', 'recv', 'connect'}


def default_may_raise(call, armed):
  """Table F4: only I/O and the codec entry points raise on exception-path rules."""
  a = call_attr(call)
  if a in RAISERS:
    return ['Exception']
  if is_socket_recv(call) and a in SOCKET_RAISE:
    return ['Exception']
  if a == 'get' and isinstance(call.func, ast.Attribute) and not call.args and not U(call.func.value).endswith(('_tag_pool', '_pool')):
    return ['Exception']     # AsyncResult.get() re-raises the stored exception (TagPool.get is not in table F4)
  return []


def mentions(node, name):
  for n in ast.walk(node):
    if isinstance(n, ast.Name) and n.id == name:
      return True
  return False


class Item(object):
  __slots__ = ('kind', 'node', 'detail', 'facts')

  def __init__(self, kind, node, detail=None):
    self.kind = kind
    self.node = node
    self.detail = detail

  @property
  def lineno(self):
    return getattr(self.node, 'lineno', 0)

  def __repr__(self):
    return '%s@%d%s' % (self.kind, self.lineno, ('(%s)' % self.detail) if self.detail else '')


class SinkProto(object):
  def __init__(self, ctx, may_raise=None, send_attrs=('_send_queue',), depth=4):
    self.ctx = ctx
    self.prog = ctx.prog
    self.may_raise = may_raise or default_may_raise
    self.depth = depth
    self._memo = {}
    self._active = set()
    self.unresolved = []

  # ----------------------------------------------------------------- summaries
  def summarize(self, f, stack, depth=None, body=None):
    """List of (items, exit, facts) for function f w.r.t. the stack held in local `stack`."""
    depth = self.depth if depth is None else depth
    key = (id(f.node), stack, id(body) if body is not None else 0)
    if key in self._memo:
      return self._memo[key]
    if key in self._active or depth < 0:
      return [([Item('RECURSE', f.node)], ('ret',), [])]
    self._active.add(key)
    try:
      P = Paths(self.may_raise, unroll=2, max_paths=6000)
      if body is not None:
        raw = [(tuple(ev), ex) for ev, ex in P.block(body)]
      else:
        raw = P.of_function(f.node)
      self.ctx.count_paths(len(raw))
      self.ctx.stats['functions_analysed'].add(f.module.rel + ':' + f.qualname)
      out = []
      for ev, ex in raw:
        alts = [[]]
        facts = FACTS(ev)
        for e in ev:
          if e.kind == 'cond':
            for a in alts:
              a.append(Item('COND', e.node, (U(e.node).replace(' ', ''), e.info)))
            continue
          new = None
          if e.kind == 'call':
            if e.info and e.info != 'inlined' and not isinstance(e.info, tuple):
              # the call raised: it contributes nothing but is recorded
              for a in alts:
                a.append(Item('RAISED', e.node, e.info))
              continue
            new = self.classify_call(e.node, f, stack, depth, multi=e.multi)
          elif e.kind == 'stmt':
            new = self.classify_stmt(e.node, f, stack, depth)
          elif e.kind == 'ret':
            pass
          if new is None:
            continue
          # new: list of alternative item lists
          alts = [a + n for a in alts for n in new][:400]
        for a in alts:
          out.append((a, ex, facts))
      self._memo[key] = out
      return out
    finally:
      self._active.discard(key)

  # ------------------------------------------------------------ classification
  def classify_stmt(self, st, f, stack, depth):
    # container stores: self._tag_map[tag] = (stack, ...)
    if isinstance(st, ast.Assign) and isinstance(st.targets[0], ast.Subscript) and mentions(st.value, stack):
      tgt = U(st.targets[0].value)
      kind = 'COMPLETER' if '_tag_map' in tgt else ('HANDOFF' if mentions(st.value, 'msg') or mentions(st.value, 'stream') else 'COMPLETER')
      return [[Item(kind, st, 'store ' + tgt)]]
    return None

  def _callable_summary(self, expr, f, stack, depth):
    """Summary alternatives (list of (items, exit, facts)) of a callable expression that
    captures / is given `stack`, or None if it does not involve the stack."""
    if isinstance(expr, ast.Lambda):
      if not mentions(expr.body, stack):
        return None
      fake = ast.Expr(value=expr.body)
      ast.copy_location(fake, expr.body)
      return self.summarize(f, stack, depth - 1, body=[fake])
    if isinstance(expr, ast.Call) and U(expr.func) in ('functools.partial', 'partial') and expr.args:
      inner = expr.args[0]
      pos = None
      for i, a in enumerate(expr.args[1:]):
        if isinstance(a, ast.Name) and a.id == stack:
          pos = i
      kw = [k.arg for k in expr.keywords if isinstance(k.value, ast.Name) and k.value.id == stack]
      t = self._resolve_callable(inner, f)
      if t is None:
        return None
      if pos is None and not kw:
        # closure over the stack?
        if t.parent is not None and mentions(t.node, stack):
          return self.summarize(t, stack, depth - 1)
        return None
      pname = kw[0] if kw else self._param_at(t, pos)
      return self.summarize(t, pname, depth - 1) if pname else None
    t = self._resolve_callable(expr, f)
    if t is not None and t.parent is not None and mentions(t.node, stack) and stack not in t.params:
      return self.summarize(t, stack, depth - 1)
    if isinstance(expr, ast.Name) and t is None and depth > 0:
      # a local holding a callable: name = lambda ... / functools.partial(...)
      defs = [st.value for st in ast.walk(f.node) if isinstance(st, ast.Assign) and len(st.targets) == 1
              and isinstance(st.targets[0], ast.Name) and st.targets[0].id == expr.id]
      if len(defs) == 1 and isinstance(defs[0], (ast.Lambda, ast.Call)):
        return self._callable_summary(defs[0], f, stack, depth - 1)
    return None

  def _resolve_callable(self, expr, f):
    if isinstance(expr, ast.Name):
      g = f
      while g is not None:
        if expr.id in g.nested:
          return g.nested[expr.id]
        g = g.parent
      r = self.prog.resolve_name(f.module, expr.id, f.cls)
      return r if isinstance(r, FuncInfo) else None
    if isinstance(expr, ast.Attribute):
      fake = ast.Call(func=expr, args=[], keywords=[])
      ts, st = self.prog.resolve_call(fake, f)
      if st == 'resolved' and ts:
        return ts[0]
    return None

  def _param_at(self, t, pos):
    params = t.params
    if t.cls is not None and not t.is_static and t.parent is None and params and params[0] in ('self', 'cls'):
      params = params[1:]
    return params[pos] if pos is not None and pos < len(params) else None

  def _classify_deferred(self, summ):
    """HANDOFF if the deferred code can forward/send, DEFER_UP if every normal path UPs
    (exactly once) and nothing else, COMPLETER if it can only UP on some paths."""
    kinds = [set(i.kind for i in items) for items, ex, facts in summ if ex[0] == 'ret']
    if not kinds:
      return 'COMPLETER'
    if any(k & {'FWD', 'HANDOFF', 'SEND'} for k in kinds):
      return 'HANDOFF'
    if all(k & {'UP', 'DEFER_UP'} for k in kinds):
      return 'DEFER_UP'
    if any(k & {'UP', 'DEFER_UP'} for k in kinds):
      return 'COMPLETER'
    return None

  def classify_call(self, call, f, stack, depth, multi=False):
    fn = call.func
    a = call_attr(call)
    name = call_name(call) or ''
    args = list(call.args) + [k.value for k in call.keywords]
    has_stack_arg = any(isinstance(x, ast.Name) and x.id == stack for x in args)
    if isinstance(fn, ast.Attribute) and isinstance(fn.value, ast.Name) and fn.value.id == stack:
      if a in UPS:
        return [[Item('UP', call, 'multi' if multi else None)]]
      if a == 'Push':
        return [[Item('PUSH', call, U(call.args[0]) if call.args else None)]]
      if a == 'Pop':
        return [[Item('POP', call)]]
      if a == 'Any':
        return None
      return [[Item('STACKOP', call, a)]]
    if a == 'AsyncProcessRequest' and call.args and isinstance(call.args[0], ast.Name) and call.args[0].id == stack:
      recv = U(fn.value) if isinstance(fn, ast.Attribute) else '?'
      return [[Item('FWD', call, recv + (' multi' if multi else ''))]]
    # transmission without the stack
    if isinstance(fn, ast.Attribute) and a == 'put' and '_send_queue' in U(fn.value):
      return [[Item('SEND', call, 'send queue')]]
    if isinstance(fn, ast.Attribute) and a in ('write', 'sendall', 'send') and is_socket_recv(call):
      return [[Item('SEND', call, 'socket write')]]
    # spawn
    if name in ('gevent.spawn', 'gevent.spawn_later') or a in ('_SpawnNamedGreenlet', 'spawn'):
      cargs = list(call.args)
      if a == '_SpawnNamedGreenlet' or (a == 'spawn' and name.startswith('NamedGreenlet')):
        cargs = cargs[1:]
      if name == 'gevent.spawn_later':
        cargs = cargs[1:]
      if not cargs:
        return None
      target, rest = cargs[0], cargs[1:]
      pos = None
      for i, x in enumerate(rest):
        if isinstance(x, ast.Name) and x.id == stack:
          pos = i
      if pos is not None:
        t = self._resolve_callable(target, f)
        if t is None:
          self.unresolved.append((f, call))
          return [[Item('ESCAPE', call, 'spawn of unresolved target')]]
        pname = self._param_at(t, pos)
        summ = self.summarize(t, pname, depth - 1)
        k = self._classify_deferred(summ) or 'COMPLETER'
        return [[Item(k, call, 'spawn ' + t.qualname)]]
      summ = self._callable_summary(target, f, stack, depth)
      if summ is not None:
        k = self._classify_deferred(summ)
        if k:
          return [[Item(k, call, 'spawn closure')]]
      return None
    # callback registration
    if isinstance(fn, ast.Attribute) and a in REGISTER:
      for x in args:
        summ = self._callable_summary(x, f, stack, depth)
        if summ is not None:
          k = self._classify_deferred(summ)
          if k == 'DEFER_UP':
            k = 'COMPLETER'    # registered code runs conditionally
          if k:
            return [[Item(k, call, '%s callback' % a)]]
      return None
    # container stores through methods
    if isinstance(fn, ast.Attribute) and a in ('append', 'appendleft', 'put', 'add', 'insert', 'setdefault') and any(mentions(x, stack) for x in args):
      if any(mentions(x, 'msg') or mentions(x, 'stream') for x in args):
        return [[Item('HANDOFF', call, 'queue ' + U(fn.value))]]
      return [[Item('COMPLETER', call, 'store ' + U(fn.value))]]
    if name in ('functools.partial', 'partial'):
      return None      # builds a callable; it is classified where it is registered / called
    # direct helper call with the stack as argument, or a closure over the stack
    if has_stack_arg or (isinstance(fn, ast.Name) and self._is_closure_over(fn.id, f, stack)):
      targets, status = self.prog.resolve_call(call, f)
      targets = [t for t in targets if not t.is_abstract]
      if status == 'resolved' and targets:
        alts = []
        for t in targets:
          pname = None
          if has_stack_arg:
            for i, x in enumerate(call.args):
              if isinstance(x, ast.Name) and x.id == stack:
                pname = self._param_at(t, i)
            for k in call.keywords:
              if isinstance(k.value, ast.Name) and k.value.id == stack:
                pname = k.arg
          else:
            pname = stack
          if pname is None:
            continue
          for items, ex, facts in self.summarize(t, pname, depth - 1):
            if ex[0] == 'ret':
              alts.append([Item('ENTER', call, t.qualname)] + list(items) + [Item('LEAVE', call, t.qualname)])
            else:
              alts.append([Item('ENTER', call, t.qualname)] + list(items) + [Item('CALLEE_RAISED', call, ex[1])])
        if alts:
          return alts[:60]
      if has_stack_arg and a not in ('isinstance', 'len', 'id', 'str', 'repr', 'debug', 'info', 'warning', 'error'):
        self.unresolved.append((f, call))
        return [[Item('ESCAPE', call, 'stack passed to unresolved %s' % name)]]
    return None

  def _is_closure_over(self, name, f, stack):
    g = f
    while g is not None:
      if name in g.nested:
        t = g.nested[name]
        return mentions(t.node, stack) and stack not in t.params
      g = g.parent
    return False


# ------------------------------------------------------------------------ rules
TRANSMIT = {'FWD', 'HANDOFF', 'SEND'}
ANSWER = {'UP', 'DEFER_UP'}


def kinds_of(items):
  return [i.kind for i in items if i.kind not in ('COND', 'ENTER', 'LEAVE')]


def describe(items):
  return ' '.join(repr(i) for i in items if i.kind not in ('COND', 'ENTER', 'LEAVE'))


def check_request(ctx, sp, rule, f, stack, why, allow_drop=None, body=None, label=None):
  """R5 on every path of an AsyncProcessRequest-like function."""
  n = 0
  label = label or 'request path'
  for items, ex, facts in sp.summarize(f, stack, body=body):
    n += 1
    ks = kinds_of(items)
    tx = [k for k in ks if k in TRANSMIT]
    an = [k for k in ks if k in ANSWER]
    if ex[0] == 'raise' and ex[1] != 'GreenletExit':
      ctx.ob(rule, f, label + ': no exceptional exit before the call is answered or handed on', bool(an) or bool(tx),
             'a may-raise call can leave %s with the request neither answered nor handed on: %s' % (f.qualname, describe(items)),
             why + ' (nobody above completes the call when a sink raises: the request is lost until its timeout)')
      continue
    if 'ESCAPE' in ks:
      ctx.ob(rule, f, label + ': stack does not escape into unknown code', False, 'sink stack escapes: %s' % describe(items), why)
      continue
    ok_once = len(tx) <= 1
    ctx.ob(rule, f, label + ': transmitted at most once', ok_once, 'path forwards/hands off the request %d times: %s' % (len(tx), describe(items)), why)
    ok_some = bool(tx) or bool(an)
    if not ok_some and allow_drop is not None and allow_drop(facts):
      ok_some = True
    ctx.ob(rule, f, label + ': answered or handed on', ok_some, 'path neither answers nor forwards the request (facts %s): %s' % (facts, describe(items)), why)
    # no answer followed by transmission
    first_an = next((i for i, k in enumerate(ks) if k in ANSWER), None)
    last_tx = max([i for i, k in enumerate(ks) if k in TRANSMIT] or [-1])
    ctx.ob(rule, f, label + ': never answers and still transmits', first_an is None or last_tx < first_an,
           'path answers the call and then still forwards it: %s' % describe(items), why)
    ctx.ob(rule, f, label + ': answered at most once', len([k for k in ks if k == 'UP']) + len([k for k in ks if k == 'DEFER_UP']) <= 1 or any(
      i.kind == 'UP' and i.detail == 'multi' for i in items),
           'path answers the call more than once: %s' % describe(items), why)
  return n


def check_response(ctx, sp, rule, f, stack, why):
  """R4: every normal path of a sink-level AsyncProcessResponse forwards upward exactly once."""
  n = 0
  for items, ex, facts in sp.summarize(f, stack):
    n += 1
    ks = kinds_of(items)
    ups = [k for k in ks if k in ANSWER]
    if ex[0] == 'raise':
      ctx.ob(rule, f, 'response path does not raise before forwarding', bool(ups), 'response path can raise before forwarding upward: %s' % describe(items), why)
      continue
    ctx.ob(rule, f, 'response forwarded upward exactly once', len(ups) == 1, 'response path forwards upward %d times: %s' % (len(ups), describe(items)), why)
  return n
